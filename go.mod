module verif

go 1.22.6

require (
	github.com/ah-naf/borno v0.0.0
	golang.org/x/text v0.21.0
	golang.org/x/tools v0.29.0
)

require (
	golang.org/x/mod v0.22.0 // indirect
	golang.org/x/sync v0.10.0 // indirect
)

replace github.com/ah-naf/borno => /repo

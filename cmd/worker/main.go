// worker runs one shard of one check in-process against the instrumented
// repository packages.  Built by cmd/mc with `go build -overlay`.
package main

import (
	"encoding/json"
	"flag"
	"fmt"
	"os"

	"verif/internal/checks"
	"verif/internal/fw"
	"verif/internal/h"
)

func main() {
	check := flag.String("check", "", "property id")
	tier := flag.String("tier", "quick", "quick|thorough|deep")
	shard := flag.Int("shard", 0, "shard index")
	n := flag.Int("n", 1, "number of shards")
	seed := flag.Int64("seed", 0, "seed (sample selection only)")
	out := flag.String("out", "", "result file")
	skipto := flag.Int64("skipto", 0, "resume: skip cases with index below this")
	replay := flag.String("replay", "", "replay file: run the recorded program twice in-process under the recorded choices")
	flag.Parse()
	if *replay != "" {
		os.Exit(runReplay(*replay))
	}
	f, ok := checks.Registry[*check]
	if !ok {
		fmt.Fprintln(h.RealStderr, "unknown check", *check)
		os.Exit(2)
	}
	c := fw.NewCtx(*check, *tier, *shard, *n, *seed)
	c.SkipTo = *skipto
	f(c)
	if err := c.Finish(*out); err != nil {
		fmt.Fprintln(h.RealStderr, "write result:", err)
		os.Exit(2)
	}
}

// runReplay executes a recorded violation in-process under its recorded choices (iteration orders, sizes
// of stdin reads), twice: both executions must agree (the schedule owns the nondeterminism), and the
// observation is compared with the one recorded when the violation was found.  Exit 1: reproduced.
func runReplay(path string) int {
	jb, err := os.ReadFile(path)
	if err != nil {
		fmt.Fprintln(h.RealStderr, err)
		return 2
	}
	var r fw.Replay
	if err := json.Unmarshal(jb, &r); err != nil {
		fmt.Fprintln(h.RealStderr, err)
		return 2
	}
	run := func() h.Outcome {
		o := h.Opts{Stdin: r.Stdin, StdinSchedule: r.StdinSch, StdinMode: r.StdinMode, Prefix: r.Choices, Fuel: 60_000_000}
		if !r.StdinSch {
			o.StdinMode = 1
		}
		switch r.Mode {
		case "repl":
			return h.RunRepl(r.Program, o)
		case "file":
			return h.RunFile(r.Program, o)
		}
		return h.Outcome{BadReplay: "mode " + r.Mode + " has no in-process replay with choices"}
	}
	a, b := run(), run()
	out := h.RealStdout
	fmt.Fprintf(out, "--- in-process under the recorded choices %v (stdin schedule %v): status=%d panic=%q diverged=%v\nstdout: %q\nstderr: %q\n", r.Choices, r.StdinSch, a.Status, a.Panic, a.Diverged, a.Stdout, a.Stderr)
	if a.BadReplay != "" {
		fmt.Fprintln(out, "BAD REPLAY:", a.BadReplay)
		return 2
	}
	if a.Stdout != b.Stdout || a.Stderr != b.Stderr || a.Status != b.Status {
		fmt.Fprintln(out, "DIVERGENCE: two executions under the same choices differ")
		return 2
	}
	if a.Stdout == r.InStdout && a.Stderr == r.InStderr && a.Status == r.InStatus {
		fmt.Fprintln(out, "REPRODUCED: the execution under the recorded choices is as recorded in the violation")
		return 1
	}
	fmt.Fprintln(out, "NOT REPRODUCED: the execution under the recorded choices differs from the recorded one")
	return 0
}

// worker runs one shard of one check in-process against the instrumented
// repository packages.  Built by cmd/mc with `go build -overlay`.
package main

import (
	"flag"
	"fmt"
	"os"

	"verif/internal/checks"
	"verif/internal/fw"
	"verif/internal/h"
)

func main() {
	check := flag.String("check", "", "property id")
	tier := flag.String("tier", "quick", "quick|thorough|deep")
	shard := flag.Int("shard", 0, "shard index")
	n := flag.Int("n", 1, "number of shards")
	seed := flag.Int64("seed", 0, "seed (sample selection only)")
	out := flag.String("out", "", "result file")
	skipto := flag.Int64("skipto", 0, "resume: skip cases with index below this")
	flag.Parse()
	f, ok := checks.Registry[*check]
	if !ok {
		fmt.Fprintln(h.RealStderr, "unknown check", *check)
		os.Exit(2)
	}
	c := fw.NewCtx(*check, *tier, *shard, *n, *seed)
	c.SkipTo = *skipto
	f(c)
	if err := c.Finish(*out); err != nil {
		fmt.Fprintln(h.RealStderr, "write result:", err)
		os.Exit(2)
	}
}

// mc is the driver: instrument /repo's working tree, build the plain CLI and
// the instrumented worker, shard a check over worker processes, aggregate,
// confirm, classify against known_findings.txt, write evidence and replays.
//
//	mc run <Cxx> <quick|thorough|deep>
//	mc replay <file>
//	mc build            (setup: pre-warm caches)
package main

import (
	"bytes"
	"crypto/sha256"
	"encoding/binary"
	"encoding/hex"
	"encoding/json"
	"fmt"
	"io/fs"
	"os"
	"os/exec"
	"path/filepath"
	"sort"
	"strconv"
	"strings"
	"sync"
	"syscall"
	"time"

	"verif/internal/fw"
	"verif/internal/instrument"
	"verif/internal/rtsrc"
)

const repoDir = "/repo"

var verifDir = "/verif"

func goEnv() []string {
	env := os.Environ()
	env = append(env, "GOFLAGS=-mod=mod", "GOPROXY=off", "GOSUMDB=off", "GOTOOLCHAIN=local",
		"GOCACHE="+filepath.Join(verifDir, ".cache", "gocache"))
	return env
}

// treeHash identifies the inputs of a build: every .go/go.mod/go.sum file of
// /repo's working tree plus the harness sources.
func treeHash() string {
	hsh := sha256.New()
	add := func(root string) {
		var files []string
		filepath.WalkDir(root, func(p string, d fs.DirEntry, err error) error {
			if err != nil {
				return nil
			}
			if d.IsDir() {
				n := d.Name()
				if n == ".git" || n == ".cache" || n == "evidence" || n == "replays" || n == "seeded" || n == "mutants" || n == "bin" {
					return filepath.SkipDir
				}
				return nil
			}
			if strings.HasSuffix(p, ".go") || strings.HasSuffix(p, "go.mod") || strings.HasSuffix(p, "go.sum") || strings.HasSuffix(p, ".go.txt") {
				files = append(files, p)
			}
			return nil
		})
		sort.Strings(files)
		for _, f := range files {
			b, _ := os.ReadFile(f)
			fmt.Fprintf(hsh, "%s\x00%d\x00", f, len(b))
			hsh.Write(b)
		}
	}
	add(repoDir)
	add(filepath.Join(verifDir, "internal"))
	add(filepath.Join(verifDir, "cmd"))
	return hex.EncodeToString(hsh.Sum(nil))[:20]
}

type built struct {
	Dir    string
	Worker string
	CLI    string
	Instr  *instrument.Result
}

// build produces (or reuses, keyed by treeHash) the plain CLI and the
// instrumented worker for the current working tree of /repo.
func build() (*built, error) {
	th := treeHash()
	root := filepath.Join(verifDir, ".cache", "build")
	os.MkdirAll(root, 0o755)
	lock, err := os.OpenFile(filepath.Join(root, "lock"), os.O_CREATE|os.O_RDWR, 0o644)
	if err != nil {
		return nil, err
	}
	defer lock.Close()
	syscall.Flock(int(lock.Fd()), syscall.LOCK_EX)
	defer syscall.Flock(int(lock.Fd()), syscall.LOCK_UN)

	dir := filepath.Join(root, th)
	b := &built{Dir: dir, Worker: filepath.Join(dir, "worker"), CLI: filepath.Join(dir, "borno")}
	if _, err := os.Stat(filepath.Join(dir, "ok")); err == nil {
		ib, _ := os.ReadFile(filepath.Join(dir, "instrument.json"))
		b.Instr = &instrument.Result{}
		json.Unmarshal(ib, b.Instr)
		now := time.Now()
		os.Chtimes(dir, now, now)
		return b, nil
	}
	// prune old builds (keep the 4 most recent)
	if ents, err := os.ReadDir(root); err == nil {
		type de struct {
			p string
			t time.Time
		}
		var ds []de
		for _, e := range ents {
			if e.IsDir() {
				if st, err := os.Stat(filepath.Join(root, e.Name())); err == nil {
					ds = append(ds, de{filepath.Join(root, e.Name()), st.ModTime()})
				}
			}
		}
		sort.Slice(ds, func(i, j int) bool { return ds[i].t.After(ds[j].t) })
		for i := 4; i < len(ds); i++ {
			os.RemoveAll(ds[i].p)
		}
	}
	os.RemoveAll(dir)
	if err := os.MkdirAll(dir, 0o755); err != nil {
		return nil, err
	}
	// go.sum of the harness module must cover the repository's requirements
	run := func(args ...string) ([]byte, error) {
		cmd := exec.Command("go", args...)
		cmd.Dir = verifDir
		cmd.Env = goEnv()
		return cmd.CombinedOutput()
	}
	if out, err := run("build", "-tags", "verif", "-o", b.CLI, instrument.Module); err != nil {
		return nil, fmt.Errorf("BUILD-FAILURE (plain CLI):\n%s", out)
	}
	res, err := instrument.Run(repoDir, verifDir, dir, rtSource)
	if err != nil {
		return nil, fmt.Errorf("INSTRUMENT-FAILURE: %v", err)
	}
	b.Instr = res
	if out, err := run("build", "-tags", "verif", "-overlay", res.OverlayFile, "-o", b.Worker, "./cmd/worker"); err != nil {
		return nil, fmt.Errorf("INSTRUMENT-FAILURE (instrumented build failed while the plain build succeeded):\n%s", out)
	}
	ib, _ := json.MarshalIndent(res, "", " ")
	os.WriteFile(filepath.Join(dir, "instrument.json"), ib, 0o644)
	os.WriteFile(filepath.Join(dir, "ok"), nil, 0o644)
	return b, nil
}

var rtSource = rtsrc.Source

// ------------------------------------------------------------------ levels

var level = map[string]string{
	"C01": "model_checking", "C02": "exploration", "C03": "model_checking", "C04": "model_checking",
	"C05": "model_checking", "C06": "model_checking", "C07": "exploration", "C08": "model_checking",
	"C09": "model_checking", "C10": "exploration", "C11": "model_checking", "C12": "model_checking",
	"C13": "model_checking", "C14": "model_checking", "C15": "exploration", "C16": "exploration",
	"C17": "exploration", "C18": "exploration", "C19": "model_checking", "C20": "model_checking",
}

// ------------------------------------------------------------------ known findings

type known struct {
	Prop, Key, What string
}

func loadKnown() []known {
	var out []known
	b, err := os.ReadFile(filepath.Join(verifDir, "known_findings.txt"))
	if err != nil {
		return nil
	}
	for _, l := range strings.Split(string(b), "\n") {
		l = strings.TrimSpace(l)
		if !strings.HasPrefix(l, "finding:") {
			continue
		}
		rest := strings.TrimSpace(strings.TrimPrefix(l, "finding:"))
		var k known
		for _, f := range strings.Fields(rest) {
			if strings.HasPrefix(f, "property=") && k.Prop == "" {
				k.Prop = strings.TrimPrefix(f, "property=")
			} else if strings.HasPrefix(f, "key=") && k.Key == "" {
				k.Key = strings.TrimPrefix(f, "key=")
			}
		}
		if i := strings.Index(rest, "key="+k.Key); i >= 0 {
			k.What = strings.TrimSpace(rest[i+len("key="+k.Key):])
		}
		if k.Prop != "" && k.Key != "" {
			out = append(out, k)
		}
	}
	return out
}

func matchKnown(ks []known, prop, sig string) *known {
	for i, k := range ks {
		if k.Prop != prop {
			continue
		}
		if k.Key == sig || (strings.HasSuffix(k.Key, "*") && strings.HasPrefix(sig, strings.TrimSuffix(k.Key, "*"))) {
			return &ks[i]
		}
	}
	return nil
}

// ------------------------------------------------------------------ run

func readInflight(p string) (string, bool) {
	b, err := os.ReadFile(p)
	if err != nil || len(b) < 8 {
		return "", false
	}
	n := binary.LittleEndian.Uint64(b)
	if int(n)+8 > len(b) {
		return "", false
	}
	return string(b[8 : 8+n]), true
}

type cliOut struct {
	Stdout, Stderr string
	Status         int
	TimedOut       bool
}

func runCLI(cli string, prog, stdin string, args []string, repl bool, timeout time.Duration) cliOut {
	dir, _ := os.MkdirTemp("", "borno-cli.")
	defer os.RemoveAll(dir)
	var cmd *exec.Cmd
	lim := "ulimit -v 4000000; exec \"$0\" \"$@\""
	if repl {
		cmd = exec.Command("sh", "-c", lim, cli)
	} else if args != nil {
		os.WriteFile(filepath.Join(dir, "prog.bn"), []byte(prog), 0o644)
		cmd = exec.Command("sh", append([]string{"-c", lim, cli}, args...)...)
	} else {
		os.WriteFile(filepath.Join(dir, "prog.bn"), []byte(prog), 0o644)
		cmd = exec.Command("sh", "-c", lim, cli, "prog.bn")
	}
	cmd.Dir = dir
	cmd.Stdin = strings.NewReader(stdin)
	var so, se bytes.Buffer
	cmd.Stdout, cmd.Stderr = &so, &se
	cmd.Start()
	done := make(chan error, 1)
	go func() { done <- cmd.Wait() }()
	var res cliOut
	select {
	case err := <-done:
		if ee, ok := err.(*exec.ExitError); ok {
			res.Status = ee.ExitCode()
		}
	case <-time.After(timeout):
		cmd.Process.Kill()
		<-done
		res.TimedOut = true
		res.Status = -1
	}
	res.Stdout, res.Stderr = so.String(), se.String()
	if len(res.Stdout) > 4000 {
		res.Stdout = res.Stdout[:4000] + "…"
	}
	if len(res.Stderr) > 4000 {
		res.Stderr = res.Stderr[:4000] + "…"
	}
	return res
}

func runCheck(id, tier string) int {
	start := time.Now()
	seed, _ := strconv.ParseInt(os.Getenv("VERIF_SEED"), 10, 64)
	if _, ok := level[id]; !ok {
		fmt.Println("unknown property", id)
		return 2
	}
	b, err := build()
	if err != nil {
		fmt.Println(err)
		return 2
	}
	nsh := 16
	if v, err := strconv.Atoi(os.Getenv("VERIF_SHARDS")); err == nil && v > 0 {
		nsh = v
	}
	scratch, err := os.MkdirTemp("", "borno-mc.")
	if err != nil {
		fmt.Println(err)
		return 2
	}
	defer os.RemoveAll(scratch)

	results := make([]*fw.ShardResult, nsh)
	crashNotes := make([][]string, nsh)
	crashVio := make([][]fw.Violation, nsh)
	gaveUp := make([]bool, nsh)
	var wg sync.WaitGroup
	for s := 0; s < nsh; s++ {
		wg.Add(1)
		go func(s int) {
			defer wg.Done()
			var poison []string
			for attempt := 0; attempt < 25; attempt++ {
				out := filepath.Join(scratch, fmt.Sprintf("res-%d.json", s))
				infl := filepath.Join(scratch, fmt.Sprintf("inflight-%d", s))
				os.Remove(out)
				os.Remove(infl)
				cmd := exec.Command(b.Worker, "-check", id, "-tier", tier, "-shard", strconv.Itoa(s), "-n", strconv.Itoa(nsh),
					"-seed", strconv.FormatInt(seed, 10), "-out", out)
				cmd.Env = append(os.Environ(), "VERIF_INFLIGHT="+infl, "VERIF_POISON="+strings.Join(poison, ","), "GOMAXPROCS=2",
					"VERIF_CLI="+b.CLI, "VERIF_SCRATCH="+scratch)
				if b.Instr != nil && b.Instr.FileAPI {
					cmd.Env = append(cmd.Env, "VERIF_MATERIALIZE="+filepath.Join(scratch, fmt.Sprintf("files-%d", s)))
				}
				var se bytes.Buffer
				cmd.Stderr = &se
				cmd.Stdout = &se
				err := cmd.Run()
				rb, rerr := os.ReadFile(out)
				if err == nil && rerr == nil {
					var r fw.ShardResult
					if json.Unmarshal(rb, &r) == nil && r.Done {
						results[s] = &r
						return
					}
				}
				txt, ok := readInflight(infl)
				tail := se.String()
				if len(tail) > 600 {
					tail = tail[:600]
				}
				if !ok {
					crashNotes[s] = append(crashNotes[s], "worker died with no case in flight: "+tail)
					return
				}
				crashNotes[s] = append(crashNotes[s], "worker died executing a case; poisoned and restarted: "+firstLine(tail))
				poison = append(poison, fmt.Sprintf("%x", fw.H64(txt)))
				// the death of the process is itself a violation: record it here,
				// whatever happens to the rest of the shard
				kind, prog := txt, ""
				if i := strings.IndexByte(txt, '\n'); i >= 0 {
					kind, prog = txt[:i], txt[i+1:]
				}
				mode := kind
				if kind == "interp" {
					mode = "file"
				}
				cls := "crash"
				switch {
				case strings.Contains(tail, "stack overflow") || strings.Contains(tail, "stack exceeds"):
					cls = "stack-overflow"
				case strings.Contains(tail, "out of memory"):
					cls = "out-of-memory"
				case strings.Contains(tail, "concurrent map"):
					cls = "concurrent-map"
				}
				crashVio[s] = append(crashVio[s], fw.Violation{Sig: id + "|fatal|" + cls, Count: 1, Replay: fw.Replay{
					Property: id, Sig: id + "|fatal|" + cls, What: "the interpreter process died (Go fatal error): " + firstLine(tail), Mode: mode, Program: prog,
					Expected: "normal end or reported error", Observed: firstLine(tail), CLI: mode == "file" || mode == "repl", InStatus: 2}})
			}
			gaveUp[s] = true
		}(s)
	}
	wg.Wait()

	// aggregate
	agg := fw.ShardResult{Check: id, Skipped: map[string]int64{}, Counters: map[string]int64{}, Bounds: map[string]interface{}{}, Exhaustive: true}
	vio := map[string]*fw.Violation{}
	harnessErr := []string{}
	for s, r := range results {
		for _, n := range crashNotes[s] {
			agg.Notes = append(agg.Notes, fmt.Sprintf("shard %d: %s", s, n))
		}
		for _, v := range crashVio[s] {
			v := v
			if old, ok := vio[v.Sig]; ok {
				old.Count++
				if len(v.Replay.Program) < len(old.Replay.Program) {
					old.Replay = v.Replay
				}
			} else {
				vio[v.Sig] = &v
			}
		}
		if r == nil {
			agg.Exhaustive = false
			if len(crashVio[s]) == 0 {
				harnessErr = append(harnessErr, fmt.Sprintf("shard %d produced no result: %v", s, crashNotes[s]))
			} else {
				agg.Notes = append(agg.Notes, fmt.Sprintf("shard %d abandoned after %d fatal crashes", s, len(crashVio[s])))
			}
			continue
		}
		agg.Evaluations += r.Evaluations
		agg.Nontrivial += r.Nontrivial
		agg.States += r.States
		agg.Transitions += r.Transitions
		agg.Traces += r.Traces
		agg.Outcomes += r.Outcomes
		for k, v := range r.Skipped {
			agg.Skipped[k] += v
		}
		for k, v := range r.Counters {
			agg.Counters[k] += v
		}
		for k, v := range r.Bounds {
			agg.Bounds[k] = v
		}
		if !r.Exhaustive {
			agg.Exhaustive = false
		}
		if r.Rule != "" {
			agg.Rule = r.Rule
		}
		if len(agg.Samples) < 8 {
			for _, sm := range r.Samples {
				if len(agg.Samples) < 8 {
					agg.Samples = append(agg.Samples, sm)
				}
			}
		}
		if s == 0 {
			agg.Notes = append(agg.Notes, r.Notes...)
		}
		harnessErr = append(harnessErr, r.HarnessErrors...)
		for _, v := range r.Violations {
			v := v
			if old, ok := vio[v.Sig]; ok {
				old.Count += v.Count
				if len(v.Replay.Program) < len(old.Replay.Program) {
					old.Replay = v.Replay
				}
			} else {
				vio[v.Sig] = &v
			}
		}
	}
	sigs := make([]string, 0, len(vio))
	for k := range vio {
		sigs = append(sigs, k)
	}
	sort.Strings(sigs)

	ks := loadKnown()
	exit := 0
	var knownSeen, newVio []string
	repDir := filepath.Join(verifDir, "replays", id)
	for _, sig := range sigs {
		v := vio[sig]
		// confirmation through the plain executable
		confirm := map[string]interface{}{}
		if v.Replay.CLI && (v.Replay.Mode == "file" || v.Replay.Mode == "repl" || v.Replay.Mode == "args") {
			to := 20 * time.Second
			if strings.Contains(sig, "|diverged") {
				to = 10 * time.Second // expected to run until killed
			}
			co := runCLI(b.CLI, v.Replay.Program, v.Replay.Stdin, v.Replay.Args, v.Replay.Mode == "repl", to)
			confirm["cli_stdout"], confirm["cli_stderr"], confirm["cli_status"], confirm["cli_timed_out"] = co.Stdout, co.Stderr, co.Status, co.TimedOut
			if !co.TimedOut {
				co2 := runCLI(b.CLI, v.Replay.Program, v.Replay.Stdin, v.Replay.Args, v.Replay.Mode == "repl", to)
				confirm["cli_deterministic"] = co == co2
			}
		}
		if k := matchKnown(ks, id, sig); k != nil {
			knownSeen = append(knownSeen, sig)
			fmt.Printf("KNOWN-FINDING: property=%s %s [key=%s, %d case(s)]\n", id, k.What, sig, v.Count)
			continue
		}
		os.MkdirAll(repDir, 0o755)
		hs := sha256.Sum256([]byte(sig))
		path := filepath.Join(repDir, hex.EncodeToString(hs[:6])+".json")
		rj := map[string]interface{}{"replay": v.Replay, "count": v.Count, "confirmation": confirm, "tier": tier}
		jb, _ := json.MarshalIndent(rj, "", " ")
		os.WriteFile(path, jb, 0o644)
		newVio = append(newVio, sig)
		exit = 1
		if len(newVio) > 40 {
			continue // replay written; keep the console readable
		}
		fmt.Printf("VIOLATION property=%s replay=%s\n", id, path)
		fmt.Printf("  signature: %s (%d case(s))\n  what: %s\n  program: %s\n  expected: %s\n  observed: %s\n", sig, v.Count,
			v.Replay.What, oneLine(v.Replay.Program, 300), oneLine(v.Replay.Expected, 300), oneLine(v.Replay.Observed, 300))
		exit = 1
	}
	if len(newVio) > 40 {
		fmt.Printf("... and %d further violation signatures (replays under %s)\n", len(newVio)-40, repDir)
	}
	if len(harnessErr) > 0 {
		fmt.Println("HARNESS-ERROR:", strings.Join(harnessErr, "\n  "))
		if exit == 0 {
			exit = 2
		}
	}

	// evidence
	cov := map[string]interface{}{
		"evaluations":                   agg.Evaluations,
		"distinct_nontrivial":           agg.Nontrivial,
		"rule":                          agg.Rule,
		"samples":                       agg.Samples,
		"exhaustive":                    agg.Exhaustive && len(harnessErr) == 0,
		"bounds":                        agg.Bounds,
		"skipped_out_of_domain":         agg.Skipped,
		"counters":                      agg.Counters,
		"distinct_observed_outcomes":    agg.Outcomes,
		"known_findings_seen":           knownSeen,
		"new_violation_signatures":      newVio,
		"unowned_nondeterminism":        b.Instr.Unowned,
		"instrumentation":               b.Instr.Counts,
		"instrumented_sites":            b.Instr.Sites,
		"shards":                        nsh,
		"notes":                         agg.Notes,
		"states":                        agg.States,
		"transitions":                   agg.Transitions,
		"traces_validated_against_impl": agg.Traces,
	}
	if agg.States == 0 {
		delete(cov, "states")
		delete(cov, "transitions")
		delete(cov, "traces_validated_against_impl")
	}
	if len(agg.Samples) == 0 {
		cov["samples"] = []interface{}{"(no sample recorded)"}
	}
	evTier := tier
	if evTier != "quick" {
		evTier = "thorough"
	}
	ev := map[string]interface{}{
		"property_id": id,
		"tier":        evTier,
		"seed":        seed,
		"level":       level[id],
		"coverage":    cov,
		"assumptions": []string{
			"the Go toolchain, and go/types for locating map ranges / clock / stdin uses",
			"the reference model in /verif/internal/model (independent of the implementation, DESIGN.md Appendix A)",
			"instrumented build behaves as the plain build except at the rewritten points (findings are re-run through the plain executable where they are visible there)",
		},
		"wall_s":     time.Since(start).Seconds(),
		"violations": len(newVio),
	}
	os.MkdirAll(filepath.Join(verifDir, "evidence"), 0o755)
	eb, _ := json.MarshalIndent(ev, "", " ")
	os.WriteFile(filepath.Join(verifDir, "evidence", id+".json"), eb, 0o644)
	fmt.Printf("%s %s: evaluations=%d distinct_nontrivial=%d states=%d transitions=%d outcomes=%d exhaustive=%v known=%d new=%d wall=%.1fs\n",
		id, tier, agg.Evaluations, agg.Nontrivial, agg.States, agg.Transitions, agg.Outcomes, cov["exhaustive"], len(knownSeen), len(newVio), time.Since(start).Seconds())
	return exit
}

func firstLine(s string) string {
	if i := strings.IndexByte(s, '\n'); i >= 0 {
		return s[:i]
	}
	return s
}

func oneLine(s string, n int) string {
	s = strings.ReplaceAll(s, "\n", "⏎")
	if len(s) > n {
		s = strings.ToValidUTF8(s[:n], "") + "…"
	}
	return s
}

// ------------------------------------------------------------------ replay

func replay(path string) int {
	jb, err := os.ReadFile(path)
	if err != nil {
		fmt.Println(err)
		return 2
	}
	var rj struct {
		Replay fw.Replay `json:"replay"`
	}
	if err := json.Unmarshal(jb, &rj); err != nil {
		fmt.Println(err)
		return 2
	}
	r := rj.Replay
	b, err := build()
	if err != nil {
		fmt.Println(err)
		return 2
	}
	fmt.Printf("property:  %s\nsignature: %s\nwhat:      %s\nexpected:  %s\nrecorded:  %s\n", r.Property, r.Sig, r.What, r.Expected, r.Observed)
	if r.Mode == "file" || r.Mode == "repl" || r.Mode == "args" {
		co := runCLI(b.CLI, r.Program, r.Stdin, r.Args, r.Mode == "repl", 120*time.Second)
		fmt.Printf("--- plain executable now: status=%d timed_out=%v\nstdout: %q\nstderr: %q\n", co.Status, co.TimedOut, co.Stdout, co.Stderr)
		if len(r.Choices) == 0 && !r.StdinSch {
			same := co.Stdout == r.InStdout && co.Stderr == r.InStderr && (co.Status == r.InStatus || r.InStatus == 2 || r.InStatus == -1)
			if same {
				fmt.Println("REPRODUCED: the executable behaves as recorded in the violation")
				return 1
			}
			fmt.Println("NOT REPRODUCED: behaviour differs from the recorded violation")
			return 0
		}
	}
	// in-process replay with the recorded choices
	scratch, _ := os.MkdirTemp("", "borno-mc.")
	defer os.RemoveAll(scratch)
	rp := filepath.Join(scratch, "replay.json")
	rb, _ := json.Marshal(r)
	os.WriteFile(rp, rb, 0o644)
	cmd := exec.Command(b.Worker, "-replay", rp)
	cmd.Stdout, cmd.Stderr = os.Stdout, os.Stderr
	if err := cmd.Run(); err != nil {
		if ee, ok := err.(*exec.ExitError); ok {
			return ee.ExitCode()
		}
		return 2
	}
	return 0
}

func main() {
	if v := os.Getenv("VERIF_DIR"); v != "" {
		verifDir = v
	}
	if len(os.Args) < 2 {
		fmt.Println("usage: mc run <Cxx> <tier> | mc replay <file> | mc build")
		os.Exit(2)
	}
	switch os.Args[1] {
	case "build":
		if _, err := build(); err != nil {
			fmt.Println(err)
			os.Exit(2)
		}
		fmt.Println("build ok")
	case "run":
		tier := "quick"
		if len(os.Args) > 3 {
			tier = os.Args[3]
		}
		if t := os.Getenv("VERIF_TIER"); t != "" && len(os.Args) <= 3 {
			tier = t
		}
		os.Exit(runCheck(os.Args[2], tier))
	case "replay":
		os.Exit(replay(os.Args[2]))
	default:
		fmt.Println("unknown command")
		os.Exit(2)
	}
}

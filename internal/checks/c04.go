package checks

import (
	"fmt"
	"strings"
	"verif/internal/h"

	"verif/internal/fw"
	"verif/internal/model"
)

func init() { Registry["C04"] = C04 }

func T(s string) *model.N { return model.Print(model.Str(s)) }

// wrapReturn nests `inner` (a statement list) in the construct kind k at
// nesting level lvl; every level prints before, and after (must be skipped).
func wrapIn(k string, lvl int, inner []*model.N) []*model.N {
	id := fmt.Sprintf("%d", lvl)
	body := append([]*model.N{T("in" + id)}, inner...)
	body = append(body, T("dead-in"+id))
	switch k {
	case "block":
		return []*model.N{model.Block(body...)}
	case "then":
		return []*model.N{model.If(model.Bool(true), model.Block(body...), model.Block(T("wrong-arm")))}
	case "else":
		return []*model.N{model.If(model.Bool(false), model.Block(T("wrong-arm")), model.Block(body...))}
	case "while":
		w := "w" + id
		b := append([]*model.N{model.ExprS(model.Asg(w, model.Bin("+", model.Id(w), model.Num(1))))}, body...)
		return []*model.N{model.Var(w, model.Num(0)), model.While(model.Bin("<", model.Id(w), model.Num(2)), model.Block(b...))}
	case "for-noinc":
		j := "n" + id
		b := append([]*model.N{model.ExprS(model.Asg(j, model.Bin("+", model.Id(j), model.Num(1))))}, body...)
		return []*model.N{model.For(model.Var(j, model.Num(0)), model.Bin("<", model.Id(j), model.Num(2)), nil, model.Block(b...))}
	case "for-bare":
		return []*model.N{model.For(nil, nil, nil, model.Block(append(body, model.Break())...))}
	case "while-true":
		return []*model.N{model.While(model.Bool(true), model.Block(append(body, model.Break())...))}
	case "for-traced":
		// every header part has an effect that outlives the loop: a traced call (prints, counts) and a step
		// that also advances a variable of the program level
		j := "t" + id
		tr := func(tag string, v *model.N) *model.N { return model.CallN("tr", model.Str(tag+id), v) }
		return []*model.N{model.For(model.Var(j, tr("init", model.Num(0))), tr("cond", model.Bin("<", model.Id(j), model.Num(2))),
			model.Asg(j, tr("step", model.Bin("+", model.Id(j), model.Num(1)))), model.Block(body...))}
	case "for-outer-step":
		j := "o" + id
		return []*model.N{model.For(model.Var(j, model.Num(0)), model.Bin("<", model.Id(j), model.Num(2)), model.Asg("outerstep", model.Bin("+", model.Id("outerstep"), model.Num(1))),
			model.Block(append([]*model.N{model.ExprS(model.Asg(j, model.Bin("+", model.Id(j), model.Num(1))))}, body...)...))}
	case "while-traced":
		w := "x" + id
		b := append([]*model.N{model.ExprS(model.Asg(w, model.Bin("+", model.Id(w), model.Num(1))))}, body...)
		return []*model.N{model.Var(w, model.Num(0)), model.While(model.CallN("tr", model.Str("wcond"+id), model.Bin("<", model.Id(w), model.Num(2))), model.Block(b...))}
	case "for":
		j := "j" + id
		return []*model.N{model.For(model.Var(j, model.Num(0)), model.Bin("<", model.Id(j), model.Num(2)), model.Asg(j, model.Bin("+", model.Id(j), model.Num(1))), model.Block(body...))}
	}
	panic(k)
}

func C04(c *fw.Ctx) {
	depth, ilen := 3, 5
	if !c.Quick() {
		depth, ilen = 4, 6
	}
	if c.Tier == "deep" {
		depth, ilen = 5, 7
	}
	c.Bound("return_nesting_depth", depth)
	c.Bound("closure_interleaving_len", ilen)
	c.R.Rule = "return at every nesting path over {block, if-then, if-else, while, for}; arity n x m; every kind in callee position; direct and mutual recursion; every interleaving of calls to sibling closures of two counter instances under four holder forms; late update and use-after-scope; non-trivial = model-specified; distinct by text"
	kinds := []string{"block", "then", "else", "while", "for", "for-noinc", "for-bare", "while-true", "for-traced", "for-outer-step", "while-traced"}
	pool := newProgPool(40)
	defer func() {
		// every ordered pair of an evenly spread sub-sequence of this shard's programs, as `{ P } { Q }`
		composePairs(c, "calls", pool, judgeOpts{})
	}()
	run := func(sig string, prog []*model.N) {
		pool.offer(prog)
		_, _, skipped := judge(c, prog, judgeOpts{SigPrefix: sig})
		if !skipped {
			c.R.States++
			c.R.Transitions++
		}
		// the same program with its parameters spelled as names of built-ins (the one kind of
		// binding the parser lets such a name have outside the program level)
		if rp, ok := paramsAsBuiltins(prog, builtinParamOrder); ok {
			_, _, skipped := judge(c, rp, judgeOpts{SigPrefix: sig + "|builtin-named-parameters"})
			if !skipped {
				c.R.States++
				c.R.Transitions++
			}
		}
		// ... and spelled with letters that Unicode normalisation would rewrite (precomposed Bangla
		// letters NFC always decomposes, a decomposed Latin letter NFC composes)
		if rp, ok := paramsAsBuiltins(prog, normalisationSensitiveNames); ok {
			_, _, skipped := judge(c, rp, judgeOpts{SigPrefix: sig + "|normalisation-sensitive-parameter-names", NoOneLine: true})
			if !skipped {
				c.R.States++
				c.R.Transitions++
			}
		}
	}
	// (a0) sequences of calls whose returns differ in form: a value, a bare return, falling off the end,
	// a bare return from inside nested constructs, a bare return after an inner call returned a value,
	// sibling closures one of which returns a value and the other nothing -- every sequence of up to three,
	// as statements and as elements of one array literal
	{
		pool := []string{"rv", "rb", "rn", "rbl", "rvn", "rvv", "cadd", "cdrain"}
		pre := func() []*model.N {
			return []*model.N{
				model.Fun("rv", nil, model.Return(model.Num(42))),
				model.Fun("rb", nil, T("in-rb"), model.Return(nil), T("never")),
				model.Fun("rn", nil, T("in-rn")),
				model.Fun("rbl", nil, model.While(model.Bool(true), model.Block(model.If(model.Bool(true), model.Block(model.Return(nil)), nil))), T("never")),
				model.Fun("rvn", nil, model.Var("t", model.CallN("rv")), model.Return(nil)),
				model.Fun("rvv", nil, model.ExprS(model.CallN("rb")), model.Return(model.Str("s"))),
				model.Fun("mkpair", nil, model.Var("n", model.Num(0)),
					model.Fun("add", nil, model.ExprS(model.Asg("n", model.Bin("+", model.Id("n"), model.Num(7)))), model.Return(model.Id("n"))),
					model.Fun("drain", nil, model.ExprS(model.Asg("n", model.Num(0))), model.Return(nil)),
					model.Return(model.Arr(model.Id("add"), model.Id("drain")))),
				model.Var("pair", model.CallN("mkpair")), model.Var("cadd", model.Idx(model.Id("pair"), model.Num(0))), model.Var("cdrain", model.Idx(model.Id("pair"), model.Num(1))),
			}
		}
		for n := 1; n <= 3; n++ {
			idx := make([]int, n)
			for {
				if c.Mine() {
					prog := pre()
					var el []*model.N
					for _, i := range idx {
						prog = append(prog, model.Print(model.CallN(pool[i])))
						el = append(el, model.CallN(pool[i]))
					}
					run("return-forms|statements", prog)
					run("return-forms|array", append(pre(), model.Print(model.Arr(el...))))
				}
				k := n - 1
				for k >= 0 {
					idx[k]++
					if idx[k] < len(pool) {
						break
					}
					idx[k] = 0
					k--
				}
				if k < 0 {
					break
				}
			}
		}
	}
	// (a4) every statement form as a direct child of a function body, before and between the statements
	// that follow it: the body is [S1, print, S2, return of what the forms declared or assigned]; S1, S2
	// over every statement form of the grammar (each with 0, 1 or several declared names, with and without
	// initialisers), the function called twice and from a second function
	{
		num := model.Num
		forms := []struct {
			name string
			mk   func(v string, k float64) *model.N
		}{
			{"decl", func(v string, k float64) *model.N { return model.Var(v, num(k)) }},
			{"decl-bare", func(v string, k float64) *model.N { return model.Var(v, nil) }},
			{"decl-two", func(v string, k float64) *model.N {
				return model.VarList([]string{v, v + "b"}, []*model.N{num(k), num(k + 1)})
			}},
			{"decl-two-mixed", func(v string, k float64) *model.N {
				return model.VarList([]string{v, v + "b"}, []*model.N{nil, num(k)})
			}},
			{"decl-three", func(v string, k float64) *model.N {
				return model.VarList([]string{v, v + "b", v + "c"}, []*model.N{num(k), model.Id(v), model.Bin("+", model.Id(v), model.Id(v+"b"))})
			}},
			{"assign", func(v string, k float64) *model.N { return model.ExprS(model.Asg("g", num(k))) }},
			{"expr", func(v string, k float64) *model.N { return model.ExprS(model.Bin("+", num(k), num(1))) }},
			{"call", func(v string, k float64) *model.N { return model.ExprS(model.CallN("note", num(k))) }},
			{"print", func(v string, k float64) *model.N { return model.Print(num(k)) }},
			{"block", func(v string, k float64) *model.N { return model.Block(model.Var(v, num(k)), model.Print(model.Id(v))) }},
			{"block-empty", func(v string, k float64) *model.N { return model.Block() }},
			{"if", func(v string, k float64) *model.N {
				return model.If(model.Bin("<", model.Id("p"), num(k)), model.Block(T("then")), model.Block(T("else")))
			}},
			{"if-no-else", func(v string, k float64) *model.N {
				return model.If(model.Bin("<", model.Id("p"), num(k)), model.Print(num(k)), nil)
			}},
			{"while", func(v string, k float64) *model.N {
				return model.While(model.Bin("<", model.Id("g"), num(k)), model.Block(model.ExprS(model.Asg("g", model.Bin("+", model.Id("g"), num(1))))))
			}},
			{"while-break", func(v string, k float64) *model.N {
				return model.While(model.Bool(true), model.Block(T("once"), model.Break()))
			}},
			{"for", func(v string, k float64) *model.N {
				return model.For(model.Var(v, num(0)), model.Bin("<", model.Id(v), num(2)), model.Asg(v, model.Bin("+", model.Id(v), num(1))), model.Block(model.Print(model.Id(v))))
			}},
			{"for-continue", func(v string, k float64) *model.N {
				return model.For(model.VarList([]string{v, v + "b"}, []*model.N{num(0), num(k)}), model.Bin("<", model.Id(v), num(2)), model.Asg(v, model.Bin("+", model.Id(v), num(1))), model.Block(model.Continue()))
			}},
			{"fun", func(v string, k float64) *model.N { return model.Fun(v+"f", nil, model.Return(num(k))) }},
		}
		declares := func(name string) []string {
			switch name {
			case "decl", "decl-bare":
				return []string{""}
			case "decl-two", "decl-two-mixed":
				return []string{"", "b"}
			case "decl-three":
				return []string{"", "b", "c"}
			}
			return nil
		}
		for i, f1 := range forms {
			for j, f2 := range forms {
				if !c.Mine() {
					continue
				}
				var res []*model.N
				for _, s := range declares(f1.name) {
					res = append(res, model.Id("u"+s))
				}
				for _, s := range declares(f2.name) {
					res = append(res, model.Id("w"+s))
				}
				res = append(res, model.Id("g"), model.Id("p"))
				body := []*model.N{f1.mk("u", float64(i+1)), T("between"), f2.mk("w", float64(10+j)), model.Return(model.Arr(res...)), T("never")}
				prog := []*model.N{
					model.Var("g", model.Num(0)),
					model.Fun("note", []string{"x"}, model.Print(model.Id("x"))),
					model.Fun("f", []string{"p"}, body...),
					model.Fun("outer", nil, model.Var("r", model.CallN("f", model.Num(3))), model.Return(model.Id("r"))),
					model.Print(model.CallN("f", model.Num(1))),
					model.Print(model.CallN("f", model.Num(100))),
					model.Print(model.CallN("outer")),
				}
				run("statement-forms-in-body|"+f1.name+"|"+f2.name, prog)
			}
		}
	}
	// (a1) a function that uses its own name as a variable while activations of it are pending: the body
	// is three slots, each one of {nothing, print the name, assign the name, one deeper call (depth < 2),
	// call through the name after assigning?}; called twice, then the name printed from outside; the same
	// for an inner function made by a factory (two instances)
	{
		id, num := model.Id, model.Num
		slot := func(k int, fn string) []*model.N {
			switch k {
			case 1:
				return []*model.N{model.Print(id(fn))}
			case 2:
				return []*model.N{model.ExprS(model.Asg(fn, model.Bin("+", model.Bin("*", id("d"), num(100)), num(7))))}
			case 3:
				return []*model.N{model.If(model.Bin("<", id("d"), num(2)), model.Block(model.Print(model.CallN(fn, model.Bin("+", id("d"), num(1))))), nil)}
			}
			return nil
		}
		for code := 0; code < 64; code++ {
			if !c.Mine() {
				continue
			}
			body := func(fn string) []*model.N {
				var b []*model.N
				b = append(b, model.Print(model.Bin("+", model.Str("enter "), id("d"))))
				for k := 0; k < 3; k++ {
					b = append(b, slot((code>>(2*uint(k)))&3, fn)...)
				}
				return append(b, model.Return(model.Bin("+", id("d"), num(1000))))
			}
			prog := []*model.N{model.Fun("sf", []string{"d"}, body("sf")...),
				model.Print(model.CallN("sf", num(0))), model.Print(model.CallN("sf", num(1))), model.Print(id("sf"))}
			run(fmt.Sprintf("own-name|direct"), prog)
			prog2 := []*model.N{model.Fun("mk", nil, model.Fun("inr", []string{"d"}, body("inr")...), model.Return(id("inr"))),
				model.Var("f1", model.CallN("mk")), model.Var("f2", model.CallN("mk")),
				model.Print(model.CallN("f1", num(0))), model.Print(model.CallN("f2", num(0))), model.Print(model.CallN("f1", num(1))), model.Print(id("f1"))}
			run(fmt.Sprintf("own-name|factory"), prog2)
		}
	}
	// (a2) a parameter in callee position: the function bound to the parameter is the one that runs,
	// whatever the parameter is called (run() repeats each program with built-in names as parameter names)
	{
		id, num := model.Id, model.Num
		for variant := 0; variant < 6; variant++ {
			if !c.Mine() {
				continue
			}
			var body []*model.N
			switch variant {
			case 0:
				body = []*model.N{model.Return(model.CallN("f", id("v")))}
			case 1:
				body = []*model.N{model.Var("r", model.CallN("f", id("v"))), model.Return(model.Bin("+", id("r"), num(1)))}
			case 2:
				body = []*model.N{model.Return(model.CallN("f", model.CallN("f", id("v"))))}
			case 3:
				body = []*model.N{model.Fun("inner", nil, model.Return(model.CallN("f", id("v")))), model.Return(model.CallN("inner"))}
			case 4:
				body = []*model.N{model.Return(model.Arr(model.CallN("f", id("v")), id("f")))}
			case 5:
				body = []*model.N{model.If(model.Bin(">", id("v"), num(0)), model.Block(model.Return(model.CallN("f", model.Bin("-", id("v"), num(1))))), nil), model.Return(model.CallN("f", id("v")))}
			}
			prog := []*model.N{
				model.Fun("ap", []string{"f", "v"}, body...),
				model.Fun("neg", []string{"x"}, model.Return(model.Bin("-", num(0), model.Bin("*", id("x"), num(2))))),
				model.Print(model.CallN("ap", id("neg"), num(5))),
				model.Print(model.CallN("ap", id(model.BiAbs), model.Un("-", num(7)))),
				model.Print(model.CallN("ap", id(model.BiRound), num(2.5))),
			}
			run("parameter-as-callee", prog)
		}
	}
	// (a3) sibling closures and a late declaration: a reader and a writer of the name n are declared in a
	// scope, called (or not) before that scope declares its own n, and called afterwards, also after the
	// scope has ended.  Which n they mean then is outside the specified domain (static and dynamic
	// resolution differ) -- but they were declared in the same scope, so under either reading they mean the
	// same one: what the writer returns is what the reader reads next
	{
		P, V, F, R := model.KwPrint, model.KwVar, model.KwFun, model.KwReturn
		for site := 0; site < 3; site++ {
			for mask := 0; mask < 8; mask++ {
				if !c.Mine() {
					continue
				}
				body := F + " get() { " + R + " n; }\n" + F + " inc() { n = n + 1; " + R + " n; }\n"
				if mask&1 != 0 {
					body += V + " before = get();\n"
				}
				if mask&2 != 0 {
					body += "inc();\n"
				}
				body += V + " n = 0;\n"
				if mask&4 != 0 {
					body += "inc();\n"
				}
				body += P + " inc() == get();\n" + P + " get() == get();\nkeep = [get, inc];\n"
				var src string
				switch site {
				case 0:
					src = V + " n = 100;\n" + V + " keep = nil;\n" + F + " make() {\n" + body + "}\nmake();\n"
				case 1:
					src = V + " n = 100;\n" + V + " keep = nil;\n{\n" + body + "}\n"
				case 2:
					src = V + " n = 100;\n" + V + " keep = nil;\n" + model.KwFor + " (" + V + " i = 0; i < 2; i = i + 1) {\n" + body + "}\n"
				}
				src += P + " keep[1]() == keep[0]();\n" + P + " keep[1]() == keep[0]();\n"
				o := h.RunFile(src, h.Opts{})
				c.Eval(src, true)
				c.R.States++
				c.R.Transitions++
				base := fw.Replay{Mode: "file", Program: src, CLI: true, InStdout: o.Stdout, InStderr: o.Stderr, InStatus: o.Status}
				if abnormal(c, o, "file", src, base) || o.Status != 0 {
					continue // a refusal of the late declaration is one of the readings
				}
				if strings.Contains(o.Stdout, "false") {
					r := base
					r.Sig = "C04|sibling-closures-disagree|late-declaration"
					r.What = "two closures declared in one scope and using the same name do not mean the same variable"
					r.Expected, r.Observed = "every comparison true", o.Stdout
					c.Violate(r)
				}
			}
		}
	}
	// (a) return placement
	var path []string
	var rec func()
	rec = func() {
		if len(path) > 0 {
			for variant := 0; variant < 6; variant++ {
				if !c.Mine() {
					continue
				}
				var ret *model.N
				switch variant % 3 {
				case 0:
					ret = model.Return(model.Num(42))
				case 1:
					ret = model.Return(nil)
				case 2:
					ret = model.Return(model.Arr(model.Id("a"), model.Str("v")))
				}
				inner := []*model.N{ret}
				if variant >= 3 {
					// innermost return as the bare body of an if
					inner = []*model.N{model.If(model.Bin("==", model.Id("a"), model.Num(7)), ret, nil)}
				}
				for lvl := len(path) - 1; lvl >= 0; lvl-- {
					inner = wrapIn(path[lvl], lvl+1, inner)
				}
				body := append([]*model.N{T("enter")}, inner...)
				body = append(body, T("dead-tail"), model.Return(model.Str("fallthrough")))
				prog := []*model.N{
					model.Var("traced", model.Num(0)), model.Var("outerstep", model.Num(0)),
					model.Fun("tr", []string{"t", "v"}, model.Print(model.Id("t")), model.ExprS(model.Asg("traced", model.Bin("+", model.Id("traced"), model.Num(1)))), model.Return(model.Id("v"))),
					model.Fun("f", []string{"a"}, body...),
					model.Print(model.CallN("f", model.Num(7))),
					model.Var("r", model.Arr(model.CallN("f", model.Num(7)), model.Num(1))),
					model.Print(model.Id("r")),
					model.Print(model.Arr(model.Id("traced"), model.Id("outerstep"))),
					T("end"),
				}
				run("return|"+path[len(path)-1], prog)
			}
		}
		if len(path) == depth {
			return
		}
		for _, k := range kinds {
			path = append(path, k)
			rec()
			path = path[:len(path)-1]
		}
	}
	rec()
	// function without return, return in a loop that ends first, nested function return does not return the outer
	if c.Mine() {
		run("no-return", []*model.N{model.Fun("f", nil, T("body")), model.Print(model.CallN("f"))})
		run("inner-return", []*model.N{
			model.Fun("outer", nil, model.Fun("inner", nil, model.Return(model.Num(1))), model.Var("v", model.CallN("inner")), T("after-inner"), model.Return(model.Bin("+", model.Id("v"), model.Num(10)))),
			model.Print(model.CallN("outer"))})
		run("return-in-loop-value", []*model.N{
			model.Fun("find", []string{"arr", "x"},
				model.For(model.Var("i", model.Num(0)), model.Bin("<", model.Id("i"), model.CallN(model.BiLen, model.Id("arr"))), model.Asg("i", model.Bin("+", model.Id("i"), model.Num(1))),
					model.Block(model.If(model.Bin("==", model.Idx(model.Id("arr"), model.Id("i")), model.Id("x")), model.Return(model.Id("i")), nil))),
				model.Return(model.Un("-", model.Num(1)))),
			model.Print(model.CallN("find", model.Arr(model.Num(5), model.Num(6), model.Num(7)), model.Num(6))),
			model.Print(model.CallN("find", model.Arr(model.Num(5), model.Num(6), model.Num(7)), model.Num(9)))})
		run("return-in-while-value", []*model.N{
			model.Fun("cnt", []string{"n"}, model.Var("i", model.Num(0)),
				model.While(model.Bool(true), model.Block(model.ExprS(model.Asg("i", model.Bin("+", model.Id("i"), model.Num(1)))), model.If(model.Bin(">=", model.Id("i"), model.Id("n")), model.Return(model.Id("i")), nil))),
				T("unreachable")),
			model.Print(model.CallN("cnt", model.Num(3)))})
	}
	// (b) arity
	pnames := []string{"a", "b", "c2"}
	for n := 0; n <= 3; n++ {
		for m := 0; m <= 4; m++ {
			if !c.Mine() {
				continue
			}
			var body []*model.N
			for _, p := range pnames[:n] {
				body = append(body, model.Print(model.Id(p)))
			}
			body = append(body, model.Return(model.Num(float64(n))))
			var args []*model.N
			for i := 0; i < m; i++ {
				args = append(args, model.Num(float64(i+1)))
			}
			run(fmt.Sprintf("arity|%d|%d", n, m), []*model.N{model.Fun("f", pnames[:n], body...), T("before"), model.Print(model.CallN("f", args...)), T("after")})
			// arguments of different kinds keep their positions
			if n == m && n > 0 {
				kinds := []*model.N{model.Str("s"), model.Arr(model.Num(1)), model.Nil()}
				run(fmt.Sprintf("arity-kinds|%d", n), []*model.N{model.Fun("f", pnames[:n], body...), model.Print(model.CallN("f", kinds[:n]...))})
			}
		}
	}
	// (b2) right and wrong argument counts at every call position
	mkCallee := []struct {
		name string
		mk   func() *model.N
	}{
		{"named", func() *model.N { return model.Id("jog") }},
		{"variable", func() *model.N { return model.Id("jv") }},
		{"element", func() *model.N { return model.Idx(model.Id("ja"), model.Num(0)) }},
		{"property", func() *model.N { return model.Prop(model.Id("jo"), "f") }},
		{"returned", func() *model.N { return model.CallN("getjog") }},
	}
	for _, ce := range mkCallee {
		for nargs := 0; nargs <= 3; nargs++ {
			for pos := 0; pos < 10; pos++ {
				if !c.Mine() {
					continue
				}
				var args []*model.N
				for i := 0; i < nargs; i++ {
					args = append(args, model.Num(float64(i+1)))
				}
				call := func() *model.N { return model.Call(ce.mk(), args...) }
				pre := []*model.N{
					model.Fun("jog", []string{"a", "b"}, model.Print(model.Str("in-jog")), model.Return(model.Bin("+", model.Bin("*", model.Id("a"), model.Num(10)), model.Id("b")))),
					model.Fun("getjog", nil, model.Return(model.Id("jog"))),
					model.Fun("id1", []string{"x"}, model.Return(model.Id("x"))),
					model.Var("jv", model.Id("jog")), model.Var("ja", model.Arr(model.Id("jog"))), model.Var("jo", model.Obj([]string{"f"}, []*model.N{model.Id("jog")})),
					T("before"),
				}
				var body []*model.N
				switch pos {
				case 0:
					body = []*model.N{model.ExprS(call())}
				case 1:
					body = []*model.N{model.Print(call())}
				case 2:
					body = []*model.N{model.Var("r", call()), model.Print(model.Id("r"))}
				case 3: // operand of return inside a function
					body = []*model.N{model.Fun("w", []string{"x"}, T("in-w"), model.Return(call())), model.Print(model.CallN("w", model.Num(5)))}
				case 4: // return operand nested in an if inside a loop inside a function
					body = []*model.N{model.Fun("w", []string{"x"}, model.While(model.Bool(true), model.Block(model.If(model.Bin(">", model.Id("x"), model.Num(0)), model.Return(call()), nil), model.Break())), model.Return(model.Num(0))), model.Print(model.CallN("w", model.Num(5)))}
				case 5:
					body = []*model.N{model.Print(model.CallN("id1", call()))}
				case 6:
					body = []*model.N{model.Print(model.CallN(model.BiAbs, call()))}
				case 7:
					body = []*model.N{model.Print(model.Arr(model.Num(0), call()))}
				case 8:
					body = []*model.N{model.If(call(), T("then"), T("else"))}
				case 9: // tail position of a recursive function
					body = []*model.N{model.Fun("w", []string{"n"}, model.If(model.Bin("<=", model.Id("n"), model.Num(0)), model.Return(call()), nil), model.Return(model.CallN("w", model.Bin("-", model.Id("n"), model.Num(1))))), model.Print(model.CallN("w", model.Num(2)))}
				}
				prog := append(pre, body...)
				prog = append(prog, T("after"))
				run(fmt.Sprintf("arity-position|%s|%d", ce.name, pos), prog)
			}
		}
	}
	// (c) callee kinds
	for _, v := range c14Values() {
		for nargs := 0; nargs <= 1; nargs++ {
			if !c.Mine() {
				continue
			}
			var args []*model.N
			if nargs == 1 {
				args = []*model.N{model.Arr()}
			}
			run("callee|"+v.Name, []*model.N{model.Fun("uf", nil), T("before"), model.Print(model.Call(model.Grp(v.Mk()), args...)), T("after")})
		}
	}
	// (d) recursion
	depths := []int{0, 1, 2, 3, 4, 5, 6}
	if !c.Quick() {
		depths = append(depths, 20, 100)
	}
	for _, d := range depths {
		if !c.Mine() {
			continue
		}
		D := model.Num(float64(d))
		run("recursion-direct", []*model.N{
			model.Fun("fact", []string{"n"},
				model.Var("local", model.Bin("*", model.Id("n"), model.Num(10))),
				model.If(model.Bin("<=", model.Id("n"), model.Num(0)), model.Block(model.Return(model.Num(0))), nil),
				model.Var("r", model.CallN("fact", model.Bin("-", model.Id("n"), model.Num(1)))),
				model.Print(model.Id("local")),
				model.Return(model.Bin("+", model.Id("r"), model.Id("local")))),
			model.Print(model.CallN("fact", D))})
		run("recursion-mutual", []*model.N{
			model.Fun("isEven", []string{"n"}, model.Var("me", model.Id("n")),
				model.If(model.Bin("==", model.Id("n"), model.Num(0)), model.Return(model.Bool(true)), nil),
				model.Var("r", model.CallN("isOdd", model.Bin("-", model.Id("n"), model.Num(1)))), model.Print(model.Id("me")), model.Return(model.Id("r"))),
			model.Fun("isOdd", []string{"n"}, model.Var("me", model.Bin("+", model.Id("n"), model.Num(0.5))),
				model.If(model.Bin("==", model.Id("n"), model.Num(0)), model.Return(model.Bool(false)), nil),
				model.Var("r", model.CallN("isEven", model.Bin("-", model.Id("n"), model.Num(1)))), model.Print(model.Id("me")), model.Return(model.Id("r"))),
			model.Print(model.CallN("isEven", D))})
		run("recursion-fib", []*model.N{
			model.Fun("fib", []string{"n"},
				model.If(model.Bin("<", model.Id("n"), model.Num(2)), model.Return(model.Id("n")), nil),
				model.Var("a", model.CallN("fib", model.Bin("-", model.Id("n"), model.Num(1)))),
				model.Var("b", model.CallN("fib", model.Bin("-", model.Id("n"), model.Num(2)))),
				model.Return(model.Bin("+", model.Id("a"), model.Id("b")))),
			model.Print(model.CallN("fib", model.Num(float64(d%12))))})
	}
	// (d2) re-entrant call sites: the recursive call sits in argument position pos of a call whose
	// other arguments depend on the current activation (the same call site is active twice)
	for arity := 2; arity <= 3; arity++ {
		for pos := 0; pos < arity; pos++ {
			for _, d := range []int{0, 1, 2, 3, 5, 8} {
				for variant := 0; variant < 3; variant++ {
					if !c.Mine() {
						continue
					}
					ps := []string{"a", "b", "cc"}[:arity]
					var combBody *model.N = model.Id("a")
					for _, q := range ps[1:] {
						combBody = model.Bin("+", model.Bin("*", combBody, model.Num(100)), model.Id(q))
					}
					mkArgs := func(recCall *model.N) []*model.N {
						var args []*model.N
						for i := 0; i < arity; i++ {
							if i == pos {
								args = append(args, recCall)
							} else {
								args = append(args, model.Bin("+", model.Id("n"), model.Num(float64(i))))
							}
						}
						return args
					}
					var prog []*model.N
					prog = append(prog, model.Fun("comb", ps, model.Return(combBody)))
					switch variant {
					case 0: // direct recursion through comb's call site
						prog = append(prog, model.Fun("rec", []string{"n"},
							model.If(model.Bin("<=", model.Id("n"), model.Num(0)), model.Return(model.Num(0)), nil),
							model.Return(model.CallN("comb", mkArgs(model.CallN("rec", model.Bin("-", model.Id("n"), model.Num(1))))...))))
					case 1: // the recursive function is its own call site (Ackermann shape)
						rps := []string{"n", "m", "k"}[:arity]
						var args []*model.N
						for i := 0; i < arity; i++ {
							if i == pos {
								inner := []*model.N{model.Bin("-", model.Id("n"), model.Num(1))}
								for j := 1; j < arity; j++ {
									inner = append(inner, model.Bin("+", model.Id(rps[j]), model.Num(1)))
								}
								args = append(args, model.CallN("rec", inner...))
							} else if i == 0 {
								args = append(args, model.Bin("-", model.Id("n"), model.Num(1)))
							} else {
								args = append(args, model.Bin("+", model.Id(rps[i]), model.Num(float64(10*i))))
							}
						}
						body := []*model.N{model.If(model.Bin("<=", model.Id("n"), model.Num(0)), model.Return(model.Bin("+", model.Id(rps[arity-1]), model.Num(1))), nil)}
						if pos == 0 {
							// first argument recursive: keep it terminating by recursing on n-1 inside
							args[0] = model.Bin("-", model.CallN("rec", append([]*model.N{model.Bin("-", model.Id("n"), model.Num(1))}, idsOf(rps[1:])...)...), model.CallN("rec", append([]*model.N{model.Bin("-", model.Id("n"), model.Num(1))}, idsOf(rps[1:])...)...))
						}
						body = append(body, model.Return(model.CallN("rec", args...)))
						prog = append(prog, model.Fun("rec", rps, body...))
					case 2: // arguments evaluated by a built-in call site: এড(arr, rec(n-1)) style nesting
						prog = append(prog, model.Fun("rec", []string{"n"},
							model.If(model.Bin("<=", model.Id("n"), model.Num(0)), model.Return(model.Arr()), nil),
							model.Return(model.CallN(model.BiAppend, model.CallN("rec", model.Bin("-", model.Id("n"), model.Num(1))), model.Id("n"), model.CallN(model.BiLen, model.CallN("rec", model.Bin("-", model.Id("n"), model.Num(1))))))))
					}
					call := model.CallN("rec", model.Num(float64(d)))
					if variant == 1 {
						as := []*model.N{model.Num(float64(d % 4))}
						for j := 1; j < arity; j++ {
							as = append(as, model.Num(float64(j)))
						}
						call = model.CallN("rec", as...)
					}
					prog = append(prog, model.Print(call), model.Print(call.Clone()))
					run(fmt.Sprintf("reentrant-call-site|%d|%d|%d", arity, pos, variant), prog)
				}
			}
		}
	}
	// (e) closure interleavings
	site := "top"
	factory := func() *model.N {
		decls := []*model.N{
			model.Fun("inc", nil, model.ExprS(model.Asg("n", model.Bin("+", model.Id("n"), model.Num(1)))), model.Return(model.Id("n"))),
			model.Fun("get", nil, model.Return(model.Id("n"))),
			model.Fun("add", []string{"k"}, model.ExprS(model.Asg("n", model.Bin("+", model.Id("n"), model.Id("k")))), model.Return(model.Id("n"))),
		}
		if site == "top" {
			body := append([]*model.N{model.Var("n", model.Id("start"))}, decls...)
			body = append(body, model.ExprS(model.Asg("n", model.Bin("+", model.Id("n"), model.Num(1000)))), // late update after creation
				model.Return(model.Arr(model.Id("inc"), model.Id("get"), model.Id("add"))))
			return model.Fun("mk", []string{"start"}, body...)
		}
		// the closures are declared inside a nested construct of the factory body
		inner := append(decls, model.ExprS(model.Asg("fs", model.Arr(model.Id("inc"), model.Id("get"), model.Id("add")))))
		var nest *model.N
		switch site {
		case "block":
			nest = model.Block(inner...)
		case "if":
			nest = model.If(model.Bin(">=", model.Id("start"), model.Num(0)), model.Block(inner...), nil)
		case "for":
			nest = model.For(model.Var("once", model.Num(0)), model.Bin("<", model.Id("once"), model.Num(1)), model.Asg("once", model.Num(1)), model.Block(inner...))
		case "while":
			nest = model.While(model.Bin("==", model.Id("fs"), model.Nil()), model.Block(inner...))
		}
		return model.Fun("mk", []string{"start"}, model.Var("n", model.Id("start")), model.Var("fs", model.Nil()), nest,
			model.ExprS(model.Asg("n", model.Bin("+", model.Id("n"), model.Num(1000)))), model.Return(model.Id("fs")))
	}
	type holder struct {
		name  string
		setup func() []*model.N
		h     func(inst, which int) *model.N // callee expression
	}
	holders := []holder{
		{"array", func() []*model.N {
			return []*model.N{factory(), model.Var("A", model.CallN("mk", model.Num(0))), model.Var("B", model.CallN("mk", model.Num(100)))}
		}, func(inst, which int) *model.N {
			return model.Idx(model.Id([]string{"A", "B"}[inst]), model.Num(float64(which)))
		}},
		{"object", func() []*model.N {
			mkobj := func(v string) *model.N {
				return model.Obj([]string{"i", "g", "a"}, []*model.N{model.Idx(model.Id(v), model.Num(0)), model.Idx(model.Id(v), model.Num(1)), model.Idx(model.Id(v), model.Num(2))})
			}
			return []*model.N{factory(), model.Var("ta", model.CallN("mk", model.Num(0))), model.Var("tb", model.CallN("mk", model.Num(100))),
				model.Var("A", mkobj("ta")), model.Var("B", mkobj("tb"))}
		}, func(inst, which int) *model.N {
			return model.Prop(model.Id([]string{"A", "B"}[inst]), []string{"i", "g", "a"}[which])
		}},
		{"variables", func() []*model.N {
			out := []*model.N{factory(), model.Var("ta", model.CallN("mk", model.Num(0))), model.Var("tb", model.CallN("mk", model.Num(100)))}
			for inst, v := range []string{"ta", "tb"} {
				for w := 0; w < 3; w++ {
					out = append(out, model.Var(fmt.Sprintf("h%d%d", inst, w), model.Idx(model.Id(v), model.Num(float64(w)))))
				}
			}
			return out
		}, func(inst, which int) *model.N { return model.Id(fmt.Sprintf("h%d%d", inst, which)) }},
		{"returned", func() []*model.N {
			return []*model.N{factory(), model.Var("ta", model.CallN("mk", model.Num(0))), model.Var("tb", model.CallN("mk", model.Num(100))),
				model.Fun("pick", []string{"inst", "w"}, model.If(model.Bin("==", model.Id("inst"), model.Num(0)), model.Return(model.Idx(model.Id("ta"), model.Id("w"))), nil), model.Return(model.Idx(model.Id("tb"), model.Id("w"))))}
		}, func(inst, which int) *model.N {
			return model.CallN("pick", model.Num(float64(inst)), model.Num(float64(which)))
		}},
	}
	type combo struct {
		hi   int
		site string
	}
	combos := []combo{{0, "top"}, {1, "top"}, {2, "top"}, {3, "top"}, {0, "block"}, {0, "if"}, {0, "for"}, {0, "while"}, {2, "if"}}
	for _, cb := range combos {
		hi, hd := cb.hi, holders[cb.hi]
		site = cb.site
		L := ilen
		if hi > 0 || site != "top" {
			L = ilen - 1 // the other holder forms and declaration sites one step shallower
		}
		nact := 6
		if hi == 0 {
			nact = 8 // plus: re-create instance B; call a closure of the old B kept aside
		}
		seq := make([]int, 0, L)
		var rec2 func()
		rec2 = func() {
			if len(seq) > 0 && c.Mine() {
				prog := hd.setup()
				if hi == 0 {
					prog = append(prog, model.Var("oldB", model.Id("B")))
				}
				for step, hnd := range seq {
					if hnd == 6 {
						prog = append(prog, model.ExprS(model.Asg("oldB", model.Id("B"))), model.ExprS(model.Asg("B", model.CallN("mk", model.Num(float64(500+step))))))
						continue
					}
					if hnd == 7 {
						prog = append(prog, model.Print(model.Call(model.Idx(model.Id("oldB"), model.Num(1)))))
						continue
					}
					inst, which := hnd/3, hnd%3
					var call *model.N
					if which == 2 {
						call = model.Call(hd.h(inst, which), model.Num(float64(5+step)))
					} else {
						call = model.Call(hd.h(inst, which))
					}
					prog = append(prog, model.Print(call))
				}
				run("closures|"+hd.name+"|"+site, prog)
				if c.R.States%3000 == 1 {
					c.Sample(map[string]string{"program": model.Render(parenAll(prog))})
				}
			}
			if len(seq) == L {
				return
			}
			for hnd := 0; hnd < nact; hnd++ {
				seq = append(seq, hnd)
				rec2()
				seq = seq[:len(seq)-1]
			}
		}
		rec2()
	}
	// closures over the variable of a loop header: a reader and a writer declared in the body of the loop
	// (three loop forms: header declaration, header assignment to an outer variable, a while loop with its
	// counter outside) are stored and called in the same iteration, in the next one, and after the loop
	{
		id, num := model.Id, model.Num
		for form := 0; form < 3; form++ {
			for mask := 0; mask < 16; mask++ {
				if !c.Mine() {
					continue
				}
				body := []*model.N{
					model.Fun("rd", nil, model.Return(id("i"))),
					model.Fun("wr", nil, model.ExprS(model.Asg("i", model.Bin("+", id("i"), num(10)))), model.Return(id("i"))),
					model.ExprS(model.Asg("rs", model.CallN(model.BiAppend, id("rs"), id("rd")))),
					model.ExprS(model.Asg("ws", model.CallN(model.BiAppend, id("ws"), id("wr")))),
				}
				if mask&1 != 0 {
					body = append(body, model.Print(model.Bin("+", model.Str("same "), model.CallN("rd"))))
				}
				if mask&2 != 0 {
					body = append(body, model.If(model.Bin(">", model.CallN(model.BiLen, id("rs")), num(1)), model.Block(model.Print(model.Bin("+", model.Str("earlier reader "), model.Call(model.Idx(id("rs"), num(0)))))), nil))
				}
				if mask&4 != 0 {
					body = append(body, model.If(model.Bin("==", model.CallN(model.BiLen, id("ws")), num(2)), model.Block(model.Print(model.Bin("+", model.Str("earlier writer "), model.Call(model.Idx(id("ws"), num(0)))))), nil))
				}
				if mask&8 != 0 {
					body = append(body, model.Var("loc", model.Bin("*", id("i"), num(2))), model.Fun("both", nil, model.Return(model.Bin("+", id("loc"), id("i")))), model.ExprS(model.Asg("rs", model.CallN(model.BiAppend, id("rs"), id("both")))))
				}
				prog := []*model.N{model.Var("rs", model.Arr()), model.Var("ws", model.Arr())}
				step := model.Asg("i", model.Bin("+", id("i"), num(1)))
				cond := model.Bin("<", id("i"), num(4))
				switch form {
				case 0:
					prog = append(prog, model.For(model.Var("i", num(0)), cond, step, model.Block(body...)))
				case 1:
					prog = append(prog, model.Var("i", num(0)), model.For(model.ExprS(model.Asg("i", num(0))), cond, step, model.Block(body...)))
				case 2:
					prog = append(prog, model.Var("i", num(0)), model.While(cond, model.Block(append(body, model.ExprS(step))...)))
				}
				prog = append(prog, model.Print(model.CallN(model.BiLen, id("rs"))))
				prog = append(prog, model.For(model.Var("k", num(0)), model.Bin("<", id("k"), model.CallN(model.BiLen, id("rs"))), model.Asg("k", model.Bin("+", id("k"), num(1))), model.Block(model.Print(model.Call(model.Idx(id("rs"), id("k")))))))
				prog = append(prog, model.Print(model.Call(model.Idx(id("ws"), num(0)))), model.Print(model.Call(model.Idx(id("rs"), num(0)))), model.Print(model.Call(model.Idx(id("rs"), model.Bin("-", model.CallN(model.BiLen, id("rs")), num(1))))))
				run(fmt.Sprintf("closure-over-header-variable|form%d", form), prog)
			}
		}
	}
	// closures over block scopes, loop variables, parameters; state shared by siblings only
	if c.Mine() {
		run("closure-block-scope", []*model.N{
			model.Var("g", model.Nil()),
			model.Block(model.Var("z", model.Num(1)), model.Fun("hh", nil, model.ExprS(model.Asg("z", model.Bin("+", model.Id("z"), model.Num(1)))), model.Return(model.Id("z"))), model.ExprS(model.Asg("g", model.Id("hh"))), model.ExprS(model.Asg("z", model.Num(50)))),
			model.Print(model.CallN("g")), model.Print(model.CallN("g")),
			model.Var("z", model.Num(7)), model.Print(model.CallN("g")), model.Print(model.Id("z"))})
		run("closure-param", []*model.N{
			model.Fun("adder", []string{"k"}, model.Fun("ad", []string{"x"}, model.Return(model.Bin("+", model.Id("x"), model.Id("k")))), model.Return(model.Id("ad"))),
			model.Var("a1", model.CallN("adder", model.Num(1))), model.Var("a10", model.CallN("adder", model.Num(10))),
			model.Print(model.CallN("a1", model.Num(5))), model.Print(model.CallN("a10", model.Num(5))), model.Print(model.CallN("a1", model.Num(6)))})
		run("closure-loop-var", []*model.N{
			model.Var("fs", model.Arr(model.Nil(), model.Nil(), model.Nil())),
			model.For(model.Var("i", model.Num(0)), model.Bin("<", model.Id("i"), model.Num(3)), model.Asg("i", model.Bin("+", model.Id("i"), model.Num(1))),
				model.Block(model.Var("k", model.Bin("*", model.Id("i"), model.Num(10))), model.Fun("gk", nil, model.ExprS(model.Asg("k", model.Bin("+", model.Id("k"), model.Num(1)))), model.Return(model.Id("k"))), model.ExprS(model.IAsg(model.Id("fs"), model.Id("i"), model.Id("gk"))))),
			model.Print(model.Call(model.Idx(model.Id("fs"), model.Num(0)))), model.Print(model.Call(model.Idx(model.Id("fs"), model.Num(2)))),
			model.Print(model.Call(model.Idx(model.Id("fs"), model.Num(0)))), model.Print(model.Call(model.Idx(model.Id("fs"), model.Num(1))))})
		run("closure-nested-factory", []*model.N{
			model.Fun("outer", nil, model.Var("n", model.Num(0)),
				model.Fun("mid", nil, model.Var("m", model.Num(100)),
					model.Fun("in", nil, model.ExprS(model.Asg("n", model.Bin("+", model.Id("n"), model.Num(1)))), model.ExprS(model.Asg("m", model.Bin("+", model.Id("m"), model.Num(1)))), model.Return(model.Bin("+", model.Id("n"), model.Id("m")))),
					model.Return(model.Id("in"))),
				model.Return(model.Id("mid"))),
			model.Var("m1", model.CallN("outer")), model.Var("i1", model.CallN("m1")), model.Var("i2", model.CallN("m1")),
			model.Print(model.CallN("i1")), model.Print(model.CallN("i2")), model.Print(model.CallN("i1")),
			model.Var("m2", model.CallN("outer")), model.Print(model.Call(model.CallN("m2")))})
	}
	c.R.Traces = c.R.States
}

func idsOf(names []string) []*model.N {
	out := make([]*model.N, len(names))
	for i, n := range names {
		out[i] = model.Id(n)
	}
	return out
}

package checks

import "verif/internal/model"

// paramsAsBuiltins returns a copy of prog in which every name that is only
// ever bound as a function parameter (never by ধরি, a for-header or as a
// function's own name, which the parser refuses for reserved names) is
// spelled as the name of a built-in the program does not otherwise mention:
// the i-th such name, in order of first appearance, gets the i-th free
// built-in of `order`.  ok is false when the program has no such parameter.
func paramsAsBuiltins(prog []*model.N, order []string) (out []*model.N, ok bool) {
	params := []string{}
	isParam := map[string]bool{}
	banned := map[string]bool{}
	used := map[string]bool{}
	var scan func(n *model.N)
	scan = func(n *model.N) {
		if n == nil {
			return
		}
		switch n.K {
		case "fun":
			banned[n.S] = true
			for _, p := range n.Names {
				if !isParam[p] {
					isParam[p] = true
					params = append(params, p)
				}
			}
		case "var":
			for _, v := range n.Names {
				banned[v] = true
			}
		case "id", "asg":
			used[n.S] = true
		}
		for _, k := range n.A {
			scan(k)
		}
	}
	for _, s := range prog {
		scan(s)
	}
	m := map[string]string{}
	oi := 0
	for _, p := range params {
		if banned[p] || model.IsBuiltin(p) {
			continue
		}
		for oi < len(order) && (used[order[oi]] || isParam[order[oi]]) {
			oi++
		}
		if oi >= len(order) {
			break
		}
		m[p] = order[oi]
		oi++
	}
	if len(m) == 0 {
		return nil, false
	}
	var cp func(n *model.N) *model.N
	cp = func(n *model.N) *model.N {
		if n == nil {
			return nil
		}
		c := *n
		switch n.K {
		case "id", "asg":
			if r, ok := m[n.S]; ok {
				c.S = r
			}
		case "fun":
			c.Names = append([]string{}, n.Names...)
			for i, p := range c.Names {
				if r, ok := m[p]; ok {
					c.Names[i] = r
				}
			}
		}
		c.A = make([]*model.N, len(n.A))
		for i, k := range n.A {
			c.A[i] = cp(k)
		}
		return &c
	}
	for _, s := range prog {
		out = append(out, cp(s))
	}
	return out, true
}

var builtinParamOrder = []string{model.BiInputLatin, model.BiMax, model.BiLen, model.BiMin, model.BiPow, model.BiAppend, model.BiInput, model.BiClock, model.BiRemove, model.BiKeys}

// names whose spelling Unicode normalisation would change (U+09DF, U+09DC, U+09DD are composition
// exclusions; e + U+0301 composes), usable wherever an identifier is
var normalisationSensitiveNames = []string{"\u09ac\u09df\u09b8", "\u09b8\u09ae\u09df", "\u09ac\u09dc", "e\u0301x", "\u0997\u09be\u09dd", "\u09a8\u09df", "k\u09df", "\u09df\u09df"}

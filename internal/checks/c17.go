package checks

import (
	"fmt"
	"math"
	"os"
	"strconv"
	"strings"
	"time"

	"verif/internal/fw"
	"verif/internal/h"
	"verif/internal/model"
)

func init() { Registry["C17"] = C17 }

func kindValues() []pval {
	return []pval{
		{"nil", model.Nil},
		{"bool", func() *model.N { return model.Bool(true) }},
		{"number", func() *model.N { return model.Num(2) }},
		{"string", func() *model.N { return model.Str("abc") }},
		{"array", func() *model.N { return model.Arr(model.Num(4), model.Num(9)) }},
		{"object", func() *model.N { return model.Obj([]string{"k"}, []*model.N{model.Num(1)}) }},
		{"function", func() *model.N { return model.Id("uf") }},
		{"builtin", func() *model.N { return model.Id(model.BiAbs) }},
	}
}

func ulpDiff(a, b float64) float64 {
	if a == b || (math.IsNaN(a) && math.IsNaN(b)) {
		return 0
	}
	if math.IsNaN(a) || math.IsNaN(b) || math.IsInf(a, 0) || math.IsInf(b, 0) {
		return math.Inf(1)
	}
	ulp := math.Nextafter(math.Abs(b), math.Inf(1)) - math.Abs(b)
	if ulp == 0 {
		return math.Inf(1)
	}
	return math.Abs(a-b) / ulp
}

// builtinCase judges one call `name(args…)`: value (with ulp tolerance for
// the transcendental functions) or error, exactly as the model says.
func builtinCase(c *fw.Ctx, name string, args []*model.N, sig string, tolerant bool, stdin string, lines []string, clock float64, clockNanos int64) {
	prog := parenAll(append(c02Prelude(), T("before"), model.Print(model.CallN(name, args...)), T("after")))
	src := model.Render(prog)
	m := &model.Machine{Stdin: lines, Clock: clock}
	res := m.Run(prog)
	if res.Unspec != "" || res.Diverged {
		c.Skip("unspecified: " + res.Unspec)
		return
	}
	o := h.RunFile(src, h.Opts{Stdin: stdin, ClockNanos: clockNanos})
	c.Eval(src+fmt.Sprint(clockNanos), true)
	base := fw.Replay{Mode: "file", Program: src, Stdin: stdin, CLI: clockNanos == 0, InStdout: o.Stdout, InStderr: o.Stderr, InStatus: o.Status}
	if abnormal(c, o, "file", src, base) {
		return
	}
	c.Outcome(o.Stdout + o.FirstDiag())
	fail := func(clause, exp, obs string) {
		r := base
		r.Sig = "C17|" + clause + "|" + sig
		r.What = clause
		r.Expected, r.Observed = exp, obs
		c.Violate(r)
	}
	if res.Err != nil {
		if o.Status != 70 || o.Stderr == "" || o.Stdout != "before\n" {
			fail("misuse-not-reported", "runtime error ("+res.Err.Msg+"), nothing printed after `before`", fmt.Sprintf("status %d stdout %q stderr %q", o.Status, o.Stdout, trunc(o.Stderr, 120)))
		} else if runtimeDiagLine(o.Stderr) != res.Err.Line {
			fail("error-line", fmt.Sprintf("[line %d]", res.Err.Line), trunc(o.Stderr, 120))
		}
		return
	}
	if o.Status != 0 || o.Stderr != "" {
		fail("spurious-error", "value "+res.Stdout(), fmt.Sprintf("status %d stderr %q", o.Status, trunc(o.Stderr, 120)))
		return
	}
	if model.CompareStdout(res, o.Stdout) == "" {
		// the sign of a zero result is part of the value: it must print like that zero's literal
		if len(res.Events) == 3 {
			if f, ok := res.Events[1].V.(float64); ok && f == 0 {
				zsrc := model.KwPrint + " 0;"
				if math.Signbit(f) {
					zsrc = model.KwPrint + " -0;"
				}
				z := h.RunFile(zsrc, h.Opts{})
				gl := strings.Split(o.Stdout, "\n")
				if z.Status == 0 && len(gl) >= 2 && gl[1]+"\n" != z.Stdout {
					fail("zero-sign", "prints like `"+zsrc+"`: "+z.Stdout, gl[1])
				}
			}
		}
		return
	}
	if tolerant {
		// compare the middle line numerically within 4 ulp
		el := strings.Split(res.Stdout(), "\n")
		gl := strings.Split(o.Stdout, "\n")
		if len(el) == len(gl) && len(el) >= 3 {
			a, e1 := strconv.ParseFloat(gl[1], 64)
			b, e2 := strconv.ParseFloat(el[1], 64)
			if e1 == nil && e2 == nil && ulpDiff(a, b) <= 4 {
				c.Count("within_4_ulp_not_identical")
				return
			}
		}
	}
	fail("value", res.Stdout(), o.Stdout)
}

func C17(c *fw.Ctx) {
	c.R.Rule = "every built-in x argument count 0-4 x kind combinations (all 8^n for n<=2, one wrong-kind position at a time above); numeric arguments over boundary values for every math built-in (pairs for ঘাত, which must print what ** prints); min/max over all permutations of lists up to length 4 in both call forms; ক্লক at four controlled instants and bracketed by the driver's clock through the executable; distinct by program text"
	kinds := kindValues()
	names := model.Builtins
	c.Bound("builtins", len(names))
	for _, name := range names {
		for n := 0; n <= 4; n++ {
			var combos [][]int
			if n <= 2 {
				var gen func(cur []int)
				gen = func(cur []int) {
					if len(cur) == n {
						combos = append(combos, append([]int{}, cur...))
						return
					}
					for k := range kinds {
						gen(append(cur, k))
					}
				}
				gen(nil)
			} else {
				base := make([]int, n)
				for i := range base {
					base[i] = 2
				}
				combos = append(combos, append([]int{}, base...))
				for pos := 0; pos < n; pos++ {
					for k := range kinds {
						if k == 2 {
							continue
						}
						cmb := append([]int{}, base...)
						cmb[pos] = k
						combos = append(combos, cmb)
					}
				}
				// array first (the array built-ins' own shape)
				for k := range kinds {
					cmb := append([]int{}, base...)
					cmb[0] = 4
					cmb[n-1] = k
					combos = append(combos, cmb)
				}
			}
			for _, cmb := range combos {
				if !c.Mine() {
					continue
				}
				args := make([]*model.N, n)
				lbl := ""
				for i, k := range cmb {
					args[i] = kinds[k].Mk()
					lbl += kinds[k].Name[:2]
				}
				builtinCase(c, name, args, fmt.Sprintf("kinds|%s|%d", name, n), false, "typed line\n", []string{"typed line"}, 1700000000.123, 0)
			}
		}
	}
	// সর্বনিম্ন / সর্বোচ্চ on every list of three values over a sub-alphabet of twelve (every kind, NaN, a huge
	// number, a shared array), as three arguments and as one array argument: every value must be a number
	// wherever it stands and whatever stands before it
	{
		var sub []operand
		for _, o := range c02Operands() {
			switch o.Name {
			case "nil", "0", "-1", "0.5", "2", "2^63", "NaN", `"a"`, "[1]", "AA", "{k:1}", "uf":
				sub = append(sub, o)
			}
		}
		for _, name := range []string{model.BiMin, model.BiMax} {
			for _, x := range sub {
				for _, y := range sub {
					for _, z := range sub {
						if !c.Mine() {
							continue
						}
						builtinCase(c, name, []*model.N{x.Mk(), y.Mk(), z.Mk()}, "minmax-three|list|"+name, false, "", nil, 0, 0)
						builtinCase(c, name, []*model.N{model.Arr(x.Mk(), y.Mk(), z.Mk())}, "minmax-three|array|"+name, false, "", nil, 0, 0)
					}
				}
			}
		}
	}
	if !c.Quick() {
		// every built-in on every argument list of length 1 and 2 over the whole operand alphabet of C02
		// (all kinds, boundary magnitudes, integer-typed results, shared containers), of length 3 too, and of length 4 over a
		// sub-alphabet of twelve
		ops := c02Operands()
		c.Bound("thorough_argument_alphabet", len(ops))
		var sub []operand
		for _, o := range ops {
			switch o.Name {
			case "nil", "0", "-1", "0.5", "2", "2^63", "NaN", `"a"`, "[1]", "AA", "{k:1}", "uf":
				sub = append(sub, o)
			}
		}
		for _, name := range names {
			for _, x := range ops {
				if c.Mine() {
					builtinCase(c, name, []*model.N{x.Mk()}, "alphabet1|"+name+"|"+kindLabel(x.Name), false, "typed line\n", []string{"typed line"}, 1700000000.123, 0)
				}
				for _, y := range ops {
					if c.Mine() {
						builtinCase(c, name, []*model.N{x.Mk(), y.Mk()}, "alphabet2|"+name+"|"+kindLabel(x.Name)+"|"+kindLabel(y.Name), false, "typed line\n", []string{"typed line"}, 1700000000.123, 0)
					}
				}
			}
			for _, x := range ops {
				for _, y := range ops {
					for _, z := range ops {
						if c.Mine() {
							builtinCase(c, name, []*model.N{x.Mk(), y.Mk(), z.Mk()}, "alphabet3|"+name, false, "typed line\n", []string{"typed line"}, 1700000000.123, 0)
						}
					}
				}
			}
			for _, x := range sub {
				for _, y := range sub {
					for _, z := range sub {
						for _, w := range sub {
							if c.Mine() {
								builtinCase(c, name, []*model.N{x.Mk(), y.Mk(), z.Mk(), w.Mk()}, "alphabet4|"+name, false, "typed line\n", []string{"typed line"}, 1700000000.123, 0)
							}
						}
					}
				}
			}
		}
	}
	// numeric boundaries
	vals := []float64{0, math.Copysign(0, -1), 0.5, -0.5, 1.5, -1.5, 2.5, -2.5, 0.49999999999999994, 4503599627370496.5, 4503599627370497, 1e308, -1e308,
		math.SmallestNonzeroFloat64, -1, 1, 2, 3.7, -3.7, 1e-5, 1e6, 1e21, 16, 0.1, math.Pi, math.Pi / 2, 100, 1e15, math.Inf(1), math.Inf(-1), math.NaN()}
	lit := func(f float64) *model.N {
		switch {
		case math.IsInf(f, 1):
			return model.Grp(model.Bin("**", model.Num(10), model.Num(400)))
		case math.IsInf(f, -1):
			return model.Un("-", model.Grp(model.Bin("**", model.Num(10), model.Num(400))))
		case math.IsNaN(f):
			inf := func() *model.N { return model.Grp(model.Bin("**", model.Num(10), model.Num(400))) }
			return model.Grp(model.Bin("-", inf(), inf()))
		case f < 0 || math.Signbit(f):
			return model.Un("-", model.NumT(bigLit(-f)))
		}
		return model.NumT(bigLit(f))
	}
	powVals := vals
	if !c.Quick() {
		// the doubles next to every boundary, every half from -64.5 to 64.5 with its neighbours, and
		// one value per binade (2^e * 1.5, e = -1074..1023 step 7)
		var more []float64
		for _, v := range vals {
			if !math.IsNaN(v) && !math.IsInf(v, 0) {
				more = append(more, math.Nextafter(v, math.Inf(1)), math.Nextafter(v, math.Inf(-1)))
			}
		}
		powVals = append(append([]float64{}, vals...), more...)
		for k := -64; k <= 64; k++ {
			hv := float64(k) + 0.5
			more = append(more, hv, math.Nextafter(hv, math.Inf(1)), math.Nextafter(hv, math.Inf(-1)), float64(k))
		}
		for e := -1074; e <= 1023; e += 7 {
			more = append(more, math.Ldexp(1.5, e), -math.Ldexp(1.5, e))
		}
		vals = append(vals, more...)
		c.Bound("thorough_numeric_arguments", len(vals))
	}
	for _, name := range []string{model.BiAbs, model.BiSqrt, model.BiRound, model.BiSin, model.BiCos, model.BiTan} {
		tol := name == model.BiSin || name == model.BiCos || name == model.BiTan
		for _, v := range vals {
			if !c.Mine() {
				continue
			}
			builtinCase(c, name, []*model.N{lit(v)}, "numeric|"+name, tol, "", nil, 0, 0)
		}
	}
	for _, a := range powVals {
		for _, b := range powVals {
			if !c.Mine() {
				continue
			}
			builtinCase(c, model.BiPow, []*model.N{lit(a), lit(b)}, "numeric|pow", true, "", nil, 0, 0)
			// ঘাত(a,b) prints what a ** b prints (differential)
			p1 := model.Render(parenAll([]*model.N{model.Print(model.CallN(model.BiPow, lit(a), lit(b)))}))
			p2 := model.Render(parenAll([]*model.N{model.Print(model.Bin("**", lit(a), lit(b)))}))
			o1, o2 := h.RunFile(p1, h.Opts{}), h.RunFile(p2, h.Opts{})
			c.Eval(p1+p2, true)
			if o1.Stdout != o2.Stdout || (o1.Status == 0) != (o2.Status == 0) {
				c.Violate(fw.Replay{Sig: "C17|pow-vs-operator", What: model.BiPow + "(a,b) must be identical to a ** b", Mode: "file", Program: p1, Related: []string{p2}, CLI: true,
					Expected: o2.Stdout, Observed: o1.Stdout, InStdout: o1.Stdout, InStderr: o1.Stderr, InStatus: o1.Status})
			}
		}
	}
	// rows and columns in one run: every math built-in over all the numeric arguments in a single program,
	// and for ঘাত every row (one base, all exponents) and every column (one exponent, all bases), in both
	// orders: each result must be what the call gives in a program of its own
	{
		pre := func() []*model.N { return nil }
		for _, name := range []string{model.BiAbs, model.BiSqrt, model.BiRound, model.BiSin, model.BiCos, model.BiTan} {
			if !c.Mine() {
				continue
			}
			var exprs []func() *model.N
			for _, v := range vals {
				name, v := name, v
				exprs = append(exprs, func() *model.N { return model.CallN(name, lit(v)) })
			}
			batchVsSingle(c, "row|"+name, pre, exprs, "")
		}
		for _, two := range []string{model.BiPow, model.BiMin, model.BiMax} {
			for _, a := range powVals {
				if !c.Mine() {
					continue
				}
				var row, col []func() *model.N
				for _, b := range powVals {
					two, a, b := two, a, b
					row = append(row, func() *model.N { return model.CallN(two, lit(a), lit(b)) })
					col = append(col, func() *model.N { return model.CallN(two, lit(b), lit(a)) })
				}
				batchVsSingle(c, "row|"+two, pre, row, "")
				batchVsSingle(c, "column|"+two, pre, col, "")
			}
		}
	}
	// built-ins whose arguments contain further calls -- of the enclosing function (recursion through
	// an argument), of the same built-in, of another built-in -- in either argument position; the
	// recursive function is run twice in the program
	{
		id, num := model.Id, model.Num
		arrs := [][]float64{{9, 1, 2, 5}, {-7, 4, 3, 6}, {2, 3, 2}, {1}}
		for _, b := range []string{model.BiMax, model.BiMin, model.BiPow} {
			for pos := 0; pos < 2; pos++ {
				for _, arr := range arrs {
					if !c.Mine() {
						continue
					}
					var el []*model.N
					for _, v := range arr {
						el = append(el, lit(v))
					}
					rec := model.CallN("best", model.Bin("+", id("i"), num(1)))
					elem := model.Idx(id("xs"), id("i"))
					call := model.CallN(b, elem, rec)
					if pos == 1 {
						call = model.CallN(b, model.CallN("best", model.Bin("+", id("i"), num(1))), model.Idx(id("xs"), id("i")))
					}
					prog := []*model.N{
						model.Var("xs", model.Arr(el...)),
						model.Fun("best", []string{"i"}, model.If(model.Bin("==", id("i"), model.Bin("-", model.CallN(model.BiLen, id("xs")), num(1))), model.Block(model.Return(model.Idx(id("xs"), id("i")))), nil), model.Return(call)),
						model.Print(model.CallN("best", num(0))), model.Print(model.CallN("best", num(0))),
						model.Print(model.CallN(b, model.CallN(b, lit(arr[0]), num(2)), model.CallN(model.BiAbs, model.CallN(b, num(3), lit(arr[0]))))),
						model.Print(model.CallN(b, num(2), model.CallN(model.BiRound, num(3.2)))),
					}
					judge(c, prog, judgeOpts{SigPrefix: "nested-calls|" + b})
				}
			}
		}
	}
	// one call site, many callees: a function that applies its parameter to constant arguments is given
	// every built-in of that arity (and a user function) in turn -- every ordered pair, the first one
	// again afterwards -- and a loop calls every element of an array of built-ins at one call site, in
	// both orders: the value is the one of the function that is called now
	{
		id, num := model.Id, model.Num
		unary := []string{model.BiAbs, model.BiSqrt, model.BiRound, model.BiSin, model.BiCos, model.BiTan, "neg"}
		binary := []string{model.BiPow, model.BiMin, model.BiMax, "sub"}
		pre := func() []*model.N {
			return []*model.N{
				model.Fun("neg", []string{"x"}, model.Return(model.Un("-", id("x")))),
				model.Fun("sub", []string{"x", "y"}, model.Return(model.Bin("-", id("x"), id("y")))),
				model.Fun("ap", []string{"f"}, model.Return(model.Call(id("f"), num(6.25)))),
				model.Fun("apn", []string{"f"}, model.Return(model.Call(id("f"), model.Un("-", num(0.5))))),
				model.Fun("ap2", []string{"f"}, model.Return(model.Call(id("f"), model.Un("-", num(3)), model.Grp(num(2))))),
			}
		}
		for _, set := range []struct {
			names []string
			aps   []string
		}{{unary, []string{"ap", "apn"}}, {binary, []string{"ap2"}}} {
			for _, f := range set.names {
				for _, g := range set.names {
					if !c.Mine() {
						continue
					}
					prog := pre()
					for _, ap := range set.aps {
						prog = append(prog, model.Print(model.CallN(ap, id(f))), model.Print(model.CallN(ap, id(g))), model.Print(model.CallN(ap, id(f))))
					}
					judge(c, prog, judgeOpts{SigPrefix: "one-call-site-many-callees|pairs"})
				}
			}
			for rev := 0; rev < 2; rev++ {
				if !c.Mine() {
					continue
				}
				var el []*model.N
				for i := range set.names {
					k := i
					if rev == 1 {
						k = len(set.names) - 1 - i
					}
					el = append(el, id(set.names[k]))
				}
				call := model.Call(model.Idx(id("fs"), id("i")), num(6.25))
				if len(set.aps) == 1 {
					call = model.Call(model.Idx(id("fs"), id("i")), model.Un("-", num(3)), num(2))
				}
				prog := append(pre(), model.Var("fs", model.Arr(el...)),
					model.For(model.Var("i", num(0)), model.Bin("<", id("i"), model.CallN(model.BiLen, id("fs"))), model.Asg("i", model.Bin("+", id("i"), num(1))), model.Block(model.Print(call))),
					model.Var("h", model.Idx(id("fs"), num(0))), model.Var("j", num(0)),
					model.While(model.Bin("<", id("j"), model.CallN(model.BiLen, id("fs"))), model.Block(
						model.ExprS(model.Asg("h", model.Idx(id("fs"), id("j")))), model.ExprS(model.Asg("j", model.Bin("+", id("j"), num(1)))),
						model.If(model.Bin("==", model.CallN(model.BiLen, id("fs")), num(7)), model.Block(model.Print(model.CallN("h", num(6.25)))), model.Block(model.Print(model.CallN("h", num(2), num(5))))))))
				judge(c, prog, judgeOpts{SigPrefix: "one-call-site-many-callees|loop"})
			}
		}
	}
	// ঘাত(a, b) must be the very double a ** b is: bases x whole and fractional exponents
	bases := []float64{10, 2.5, 0.1, 3, 1.5, 7, 0.3, 2, 0.5, 1e10, 1e-10, 123456.789, -10, -2.5, -0.1, 1.0000000001, 0.9999999999, 1e154, 1e-154, 17, 1.1}
	var exps []float64
	for e := -12; e <= 12; e++ {
		exps = append(exps, float64(e))
	}
	exps = append(exps, -1024, -1023, -512, -100, -64, -33, 33, 64, 100, 512, 1023, 1024, 1025, 0.5, -0.5, 1.0/3, 2.5, -2.5, 1e-3, 50.5)
	c.Bound("pow_pairs", len(bases)*len(exps))
	for _, a := range bases {
		for _, b := range exps {
			if !c.Mine() {
				continue
			}
			p1 := model.Render(parenAll([]*model.N{model.Print(model.CallN(model.BiPow, lit(a), lit(b))), model.Print(model.Bin("==", model.CallN(model.BiPow, lit(a), lit(b)), model.Bin("**", lit(a), lit(b))))}))
			p2 := model.Render(parenAll([]*model.N{model.Print(model.Bin("**", lit(a), lit(b))), model.Print(model.Bin("==", model.Bin("**", lit(a), lit(b)), model.Bin("**", lit(a), lit(b))))}))
			o1, o2 := h.RunFile(p1, h.Opts{}), h.RunFile(p2, h.Opts{})
			c.Eval(p1+p2, true)
			if abnormal(c, o1, "file", p1, fw.Replay{CLI: true}) || abnormal(c, o2, "file", p2, fw.Replay{CLI: true}) {
				continue
			}
			if o1.Stdout != o2.Stdout || o1.Status != o2.Status {
				c.Violate(fw.Replay{Sig: "C17|pow-vs-operator", What: model.BiPow + "(a,b) must be identical to a ** b", Mode: "file", Program: p1, Related: []string{p2}, CLI: true,
					Expected: o2.Stdout, Observed: o1.Stdout, InStdout: o1.Stdout, InStderr: o1.Stderr, InStatus: o1.Status})
			}
			builtinCase(c, model.BiPow, []*model.N{lit(a), lit(b)}, "numeric|pow", true, "", nil, 0, 0)
		}
	}
	// min / max: all permutations of small lists, both call forms
	for _, pool := range [][]float64{{3, -1, 7, 0.5, 3}, {-3, -1, -7, -0.5, -1}, {0, 1e308, -1e308, 1e-300}} {
		for n := 1; n <= 4; n++ {
			var gen func(cur []int, used int)
			gen = func(cur []int, used int) {
				if len(cur) == n {
					if !c.Mine() {
						return
					}
					for _, name := range []string{model.BiMin, model.BiMax} {
						var args, args2 []*model.N
						for _, i := range cur {
							args = append(args, lit(pool[i]))
							args2 = append(args2, lit(pool[i]))
						}
						builtinCase(c, name, args, "minmax|list|"+name, false, "", nil, 0, 0)
						builtinCase(c, name, []*model.N{model.Arr(args2...)}, "minmax|array|"+name, false, "", nil, 0, 0)
					}
					return
				}
				for i := range pool {
					if used&(1<<i) != 0 {
						continue
					}
					gen(append(cur, i), used|1<<i)
				}
			}
			gen(nil, 0)
		}
	}
	// every list of up to three values over the extremes (infinities included), both call forms
	ext := []float64{math.Inf(1), math.Inf(-1), math.MaxFloat64, -math.MaxFloat64, 0, 5}
	for n := 1; n <= 3; n++ {
		idx := make([]int, n)
		for {
			if c.Mine() {
				for _, name := range []string{model.BiMin, model.BiMax} {
					var a1, a2 []*model.N
					for _, i := range idx {
						a1 = append(a1, lit(ext[i]))
						a2 = append(a2, lit(ext[i]))
					}
					builtinCase(c, name, a1, "minmax|extremes-list|"+name, false, "", nil, 0, 0)
					builtinCase(c, name, []*model.N{model.Arr(a2...)}, "minmax|extremes-array|"+name, false, "", nil, 0, 0)
				}
			}
			k := n - 1
			for k >= 0 {
				idx[k]++
				if idx[k] < len(ext) {
					break
				}
				idx[k] = 0
				k--
			}
			if k < 0 {
				break
			}
		}
	}
	if c.Mine() {
		for _, name := range []string{model.BiMin, model.BiMax} {
			builtinCase(c, name, []*model.N{lit(math.NaN())}, "minmax|single-nan", false, "", nil, 0, 0)
			builtinCase(c, name, []*model.N{model.Arr()}, "minmax|empty-array", false, "", nil, 0, 0)
			builtinCase(c, name, []*model.N{model.Arr(model.Num(1), model.Str("x"))}, "minmax|array-with-string", false, "", nil, 0, 0)
			builtinCase(c, name, []*model.N{model.Arr(model.Num(1)), model.Num(2)}, "minmax|array-and-number", false, "", nil, 0, 0)
			builtinCase(c, name, []*model.N{model.Arr(model.Arr(model.Num(1)))}, "minmax|nested-array", false, "", nil, 0, 0)
			builtinCase(c, name, []*model.N{lit(1e308), lit(-1e308), lit(math.SmallestNonzeroFloat64)}, "minmax|extremes", false, "", nil, 0, 0)
			builtinCase(c, name, []*model.N{lit(math.Inf(1)), lit(5), lit(math.Inf(-1))}, "minmax|infinities", false, "", nil, 0, 0)
		}
	}
	// clock at controlled instants
	for _, ms := range []int64{0, 1, 1700000000123, 4102444800999, 999} {
		if !c.Mine() {
			continue
		}
		builtinCase(c, model.BiClock, nil, "clock", false, "", nil, float64(ms)/1000.0, ms*1_000_000+1)
	}
	if cli := os.Getenv("VERIF_CLI"); cli != "" && c.Shard == 0 {
		dir, _ := os.MkdirTemp(os.Getenv("VERIF_SCRATCH"), "c17.")
		defer os.RemoveAll(dir)
		src := model.KwPrint + " " + model.BiClock + "();\n"
		os.WriteFile(dir+"/p.bn", []byte(src), 0o644)
		t0 := float64(time.Now().UnixMilli()) / 1000
		r := runCLIHere(cli, dir, []string{"p.bn"}, "", false)
		t1 := float64(time.Now().UnixMilli()) / 1000
		got, err := strconv.ParseFloat(strings.TrimSpace(r.Stdout), 64)
		c.Eval("cli-clock", true)
		c.Count("cli_runs")
		if err != nil || got < t0-1 || got > t1+1 || r.Status != 0 {
			c.Violate(fw.Replay{Sig: "C17|clock-cli", What: model.BiClock + "() must return the current Unix time in seconds", Mode: "file", Program: src, CLI: false,
				Expected: fmt.Sprintf("between %.3f and %.3f", t0-1, t1+1), Observed: fmt.Sprintf("%q status %d", r.Stdout, r.Status)})
		}
	}
	c.Sample(map[string]string{"program": model.KwPrint + " " + model.BiRound + "(2.5);", "expected": "3"})
	c.Sample(map[string]string{"program": model.KwPrint + " " + model.BiMin + "([3, -1, 7]);", "expected": "-1"})
}

// Package checks holds the generators and oracles, one file per property.
// It links the repository through the instrumentation overlay.
package checks

import (
	"fmt"
	"strings"

	"github.com/ah-naf/borno/token"
	"verif/internal/fw"
	"verif/internal/h"
)

var Registry = map[string]func(*fw.Ctx){}

// KindName maps the implementation's token types to model kind names.
var KindName = map[token.TokenType]string{
	token.LEFT_PAREN: "LEFT_PAREN", token.RIGHT_PAREN: "RIGHT_PAREN", token.LEFT_BRACE: "LEFT_BRACE",
	token.RIGHT_BRACE: "RIGHT_BRACE", token.LEFT_BRACKET: "LEFT_BRACKET", token.RIGHT_BRACKET: "RIGHT_BRACKET",
	token.COMMA: "COMMA", token.DOT: "DOT", token.MINUS: "MINUS", token.PLUS: "PLUS", token.SEMICOLON: "SEMICOLON",
	token.COLON: "COLON", token.SLASH: "SLASH", token.STAR: "STAR", token.AND: "AND", token.OR: "OR", token.XOR: "XOR",
	token.POWER: "POWER", token.NOT: "NOT", token.MODULO: "MODULO", token.BANG: "BANG", token.BANG_EQUAL: "BANG_EQUAL",
	token.EQUAL: "EQUAL", token.EQUAL_EQUAL: "EQUAL_EQUAL", token.GREATER: "GREATER", token.GREATER_EQUAL: "GREATER_EQUAL",
	token.LEFT_SHIFT: "LEFT_SHIFT", token.LESS: "LESS", token.LESS_EQUAL: "LESS_EQUAL", token.RIGHT_SHIFT: "RIGHT_SHIFT",
	token.IDENTIFIER: "IDENTIFIER", token.STRING: "STRING", token.NUMBER: "NUMBER", token.BREAK: "BREAK",
	token.CONTINUE: "CONTINUE", token.LOGICAL_AND: "LOGICAL_AND", token.CLASS: "CLASS", token.ELSE: "ELSE",
	token.FALSE: "FALSE", token.FUN: "FUN", token.FOR: "FOR", token.IF: "IF", token.NIL: "NIL",
	token.LOGICAL_OR: "LOGICAL_OR", token.PRINT: "PRINT", token.RETURN: "RETURN", token.TRUE: "TRUE",
	token.VAR: "VAR", token.WHILE: "WHILE", token.EOF: "EOF",
}

func kindOf(t token.TokenType) string {
	if s, ok := KindName[t]; ok {
		return s
	}
	return fmt.Sprintf("?%d", int(t))
}

// abnormal reports panic / divergence of an execution as a violation and
// returns true if the outcome cannot be judged further.
func abnormal(c *fw.Ctx, o h.Outcome, mode, prog string, extra fw.Replay) bool {
	if o.Panic != "" {
		r := extra
		r.Mode, r.Program = mode, prog
		r.Sig = c.Check + "|panic|" + panicClass(o.Panic)
		r.What = "host-runtime panic: " + o.Panic
		r.Expected = "normal end or reported error"
		r.Observed = "panic: " + o.Panic
		r.CLI = mode == "file" || mode == "repl"
		c.Violate(r)
		return true
	}
	if o.Diverged {
		r := extra
		r.Mode, r.Program = mode, prog
		r.Sig = c.Check + "|diverged"
		r.What = "execution did not terminate within the fuel budget"
		r.Expected = "termination"
		r.Observed = fmt.Sprintf("fuel exhausted; stdout %d bytes, stderr %d bytes", len(o.Stdout), len(o.Stderr))
		r.CLI = mode == "file" || mode == "repl"
		c.Violate(r)
		return true
	}
	if o.BadReplay != "" {
		c.HarnessError("bad replay: " + o.BadReplay)
		return true
	}
	return false
}

// panicClass abstracts a panic message into a short class for signatures.
func panicClass(p string) string {
	switch {
	case strings.Contains(p, "comparing uncomparable"):
		return "uncomparable"
	case strings.Contains(p, "negative shift"):
		return "negative-shift"
	case strings.Contains(p, "index out of range"):
		return "index-range"
	case strings.Contains(p, "slice bounds"):
		return "slice-bounds"
	case strings.Contains(p, "nil pointer"):
		return "nil-deref"
	case strings.Contains(p, "interface conversion"):
		return "type-assert"
	case strings.Contains(p, "divide by zero"):
		return "int-div-zero"
	}
	if len(p) > 40 {
		p = p[:40]
	}
	return p
}

func trunc(s string, n int) string {
	if len(s) > n {
		return strings.ToValidUTF8(s[:n], "") + "…"
	}
	return s
}

package checks

import (
	"fmt"
	"reflect"
	"strings"

	"verif/internal/fw"
	"verif/internal/h"
	"verif/internal/model"
)

func init() { Registry["C11"] = C11 }

// arrOp is one operation of the array alphabet (DESIGN Appendix D.4).
type arrOp struct {
	Name string
	Leaf bool // expected to fail (error step): never extended
	Mk   func(K float64) []*model.N
}

var arrVars = []string{"a", "b", "c"}

func arrOps() []arrOp {
	var ops []arrOp
	id := model.Id
	num := model.Num
	add := func(name string, leaf bool, mk func(K float64) []*model.N) {
		ops = append(ops, arrOp{name, leaf, mk})
	}
	st := func(e *model.N) []*model.N { return []*model.N{model.ExprS(e)} }
	last := func(x string) *model.N { return model.Bin("-", model.CallN(model.BiLen, id(x)), num(1)) }
	for _, x := range arrVars {
		x := x
		add(x+"=[K,K+1,K+2]", false, func(K float64) []*model.N { return st(model.Asg(x, model.Arr(num(K), num(K+1), num(K+2)))) })
		add(x+"=[]", false, func(K float64) []*model.N { return st(model.Asg(x, model.Arr())) })
		// one source literal evaluated on every call: results must not share anything
		add(x+"=mkNested()", false, func(K float64) []*model.N { return st(model.Asg(x, model.CallN("mkNested"))) })
		add(x+"=mkFlat()", false, func(K float64) []*model.N { return st(model.Asg(x, model.CallN("mkFlat"))) })
		add(x+"[1][0]=K", false, func(K float64) []*model.N { return st(model.IAsg(model.Idx(id(x), num(1)), num(0), num(K))) })
		add(x+"[0]=K", false, func(K float64) []*model.N { return st(model.IAsg(id(x), num(0), num(K))) })
		add(x+"[last]=K", false, func(K float64) []*model.N { return st(model.IAsg(id(x), last(x), num(K))) })
		add("poke("+x+")", false, func(K float64) []*model.N { return st(model.CallN("poke", id(x), num(K))) })
		add(x+"[0][0]=K", false, func(K float64) []*model.N { return st(model.IAsg(model.Idx(id(x), num(0)), num(0), num(K))) })
		add(model.BiAppend+"("+x+",K) discarded", false, func(K float64) []*model.N { return st(model.CallN(model.BiAppend, id(x), num(K))) })
		add(model.BiRemove+"("+x+",0) discarded", false, func(K float64) []*model.N { return st(model.CallN(model.BiRemove, id(x), num(0))) })
		for _, y := range arrVars {
			y := y
			if x != y {
				add(x+"="+y, false, func(K float64) []*model.N { return st(model.Asg(x, id(y))) })
				add(x+"[0]="+y, false, func(K float64) []*model.N { return st(model.IAsg(id(x), num(0), id(y))) })
			}
			add(x+"="+model.BiAppend+"("+y+",K)", false, func(K float64) []*model.N { return st(model.Asg(x, model.CallN(model.BiAppend, id(y), num(K)))) })
			add(x+"="+model.BiAppend+"("+y+",K,K+1)", false, func(K float64) []*model.N {
				return st(model.Asg(x, model.CallN(model.BiAppend, id(y), num(K), num(K+1))))
			})
			add(x+"="+model.BiRemove+"("+y+",0)", false, func(K float64) []*model.N { return st(model.Asg(x, model.CallN(model.BiRemove, id(y), num(0)))) })
			add(x+"="+model.BiRemove+"("+y+",1)", false, func(K float64) []*model.N { return st(model.Asg(x, model.CallN(model.BiRemove, id(y), num(1)))) })
			add(x+"="+model.BiRemove+"("+y+",last)", false, func(K float64) []*model.N { return st(model.Asg(x, model.CallN(model.BiRemove, id(y), last(y)))) })
		}
	}
	// leaf transitions: bad indexes for read, write, remove; লেন as an ordinary number
	x := "a"
	bad := []struct {
		n string
		e func() *model.N
	}{
		{"-1", func() *model.N { return model.Un("-", num(1)) }},
		{"len", func() *model.N { return model.CallN(model.BiLen, id(x)) }},
		{"0.5", func() *model.N { return num(0.5) }},
		{`"x"`, func() *model.N { return model.Str("x") }},
		{"nil", model.Nil},
		{"true", func() *model.N { return model.Bool(true) }},
		{"false", func() *model.N { return model.Bool(false) }},
		{"0<1", func() *model.N { return model.Grp(model.Bin("<", num(0), num(1))) }},
		{"[0]", func() *model.N { return model.Arr(num(0)) }},
		{"{}", func() *model.N { return model.Obj(nil, nil) }},
		{"function", func() *model.N { return id("poke") }},
		{"builtin", func() *model.N { return id(model.BiLen) }},
		{`""`, func() *model.N { return model.Str("") }},
		{"1+1e-10", func() *model.N { return model.NumT("1.0000000001") }},
		{"1-1e-10", func() *model.N { return model.NumT("0.9999999999") }},
		{"-1e-10", func() *model.N { return model.Un("-", model.NumT("0.0000000001")) }},
		{"0.1*3*10", func() *model.N { return model.Bin("*", model.Bin("*", model.NumT("0.1"), num(3)), num(10)) }},
		{"next-above-1", func() *model.N { return model.NumT("1.0000000000000002") }},
		{"2^31", func() *model.N { return num(2147483648) }},
		{"NaN", func() *model.N {
			inf := func() *model.N { return model.Grp(model.Bin("**", num(10), num(400))) }
			return model.Bin("-", inf(), inf())
		}},
	}
	for _, b := range bad {
		b := b
		add("read a["+b.n+"]", true, func(K float64) []*model.N { return []*model.N{model.Print(model.Idx(id(x), b.e()))} })
		add("write a["+b.n+"]", true, func(K float64) []*model.N { return st(model.IAsg(id(x), b.e(), num(K))) })
		add(model.BiRemove+"(a,"+b.n+")", true, func(K float64) []*model.N { return []*model.N{model.Print(model.CallN(model.BiRemove, id(x), b.e()))} })
	}
	ln := func() *model.N { return model.CallN(model.BiLen, id(x)) }
	add("len+1", false, func(K float64) []*model.N { return []*model.N{model.Print(model.Bin("+", ln(), num(1)))} })
	add("len<9", false, func(K float64) []*model.N { return []*model.N{model.Print(model.Bin("<", ln(), num(9)))} })
	add(`""+len`, false, func(K float64) []*model.N { return []*model.N{model.Print(model.Bin("+", model.Str("n="), ln()))} })
	add("len==len", false, func(K float64) []*model.N {
		return []*model.N{model.Print(model.Bin("==", ln(), model.Bin("+", ln(), num(0)))), model.Print(model.Idx(model.Arr(num(7), num(8), num(9), num(10), num(11), num(12), num(13), num(14)), ln()))}
	})
	add("index non-array", true, func(K float64) []*model.N { return []*model.N{model.Print(model.Idx(ln(), num(0)))} })
	return ops
}

// observation printed after every step
func arrObserve() []*model.N {
	var out []*model.N
	for _, v := range arrVars {
		out = append(out, model.Print(model.Id(v)))
	}
	for _, v := range arrVars {
		out = append(out, model.Print(model.Bin("+", model.CallN(model.BiLen, model.Id(v)), model.Num(0))))
	}
	out = append(out, model.Print(model.Arr(model.Id("a"), model.Id("b"), model.Id("a"))))
	return out
}

// arrStarts: initial states with shared ancestry (the first element of a history selects one).
const arrStartCount = 3

func arrProgram(hist []int, ops []arrOp) []*model.N {
	prog := []*model.N{
		model.Fun("poke", []string{"z", "v"}, model.ExprS(model.IAsg(model.Id("z"), model.Num(0), model.Id("v")))),
		model.Fun("mkNested", nil, model.Return(model.Arr(model.Arr(model.Num(1), model.Num(2)), model.Arr(model.Num(3), model.Num(4))))),
		model.Fun("mkFlat", nil, model.Return(model.Arr(model.Num(5), model.Num(6), model.Num(7)))),
	}
	start := 0
	if len(hist) > 0 {
		start = hist[0]
		hist = hist[1:]
	}
	switch start {
	case 0: // independent literal, empty array, alias
		prog = append(prog, model.Var("a", model.Arr(model.Num(1), model.Num(2), model.Num(3))), model.Var("b", model.Arr()), model.Var("c", model.Id("a")))
	case 1: // an array holding another one, and the result of an append
		prog = append(prog, model.Var("b", model.Arr(model.Num(7), model.Num(8))), model.Var("a", model.Arr(model.Id("b"), model.Num(2))), model.Var("c", model.CallN(model.BiAppend, model.Id("a"), model.Num(9))))
	case 2: // results of remove and append of one ancestor
		prog = append(prog, model.Var("a", model.Arr(model.Num(1), model.Num(2), model.Num(3), model.Num(4))), model.Var("b", model.CallN(model.BiRemove, model.Id("a"), model.Num(3))), model.Var("c", model.CallN(model.BiAppend, model.Id("b"), model.Num(5))))
	}
	for i, o := range hist {
		K := float64(100 * (i + 1))
		prog = append(prog, ops[o].Mk(K)...)
		// every prefix of a history is a program of its own, observed in full at its end; on the way
		// only a cheap observation is printed
		if i < len(hist)-1 {
			prog = append(prog, model.Print(model.Id("a")))
		}
	}
	prog = append(prog, arrObserve()...)
	for _, v := range arrVars {
		prog = append(prog, model.ExprS(model.Id(v)))
	}
	return prog
}

// canonical forms -------------------------------------------------------

type canon struct {
	sb    strings.Builder
	ids   map[interface{}]int
	ranks map[float64]int
}

func (cn *canon) num(f float64) {
	r, ok := cn.ranks[f]
	if !ok {
		r = len(cn.ranks)
		cn.ranks[f] = r
	}
	fmt.Fprintf(&cn.sb, "n%d", r)
}

func (cn *canon) modelVal(v model.Value) {
	switch x := v.(type) {
	case float64:
		cn.num(x)
	case *model.ArrV:
		if id, ok := cn.ids[x]; ok {
			fmt.Fprintf(&cn.sb, "@%d", id)
			return
		}
		cn.ids[x] = len(cn.ids)
		cn.sb.WriteString("[")
		for _, e := range x.E {
			cn.modelVal(e)
			cn.sb.WriteString(",")
		}
		cn.sb.WriteString("]")
	default:
		fmt.Fprintf(&cn.sb, "%v", model.Text(v))
	}
}

func (cn *canon) implVal(v interface{}) {
	switch x := v.(type) {
	case float64:
		cn.num(x)
	case []interface{}:
		rv := reflect.ValueOf(x)
		end := uintptr(0)
		if rv.Cap() > 0 {
			end = rv.Pointer() + uintptr(rv.Cap())*unsafeSizeofIface
		}
		cls, ok := cn.ids[end]
		if !ok {
			cls = len(cn.ids)
			cn.ids[end] = cls
		}
		fmt.Fprintf(&cn.sb, "s(c%d,cap%d,len%d)[", cls, rv.Cap(), rv.Len())
		if len(cn.sb.String()) < 4000 {
			for _, e := range x {
				cn.implVal(e)
				cn.sb.WriteString(",")
			}
		}
		cn.sb.WriteString("]")
	default:
		fmt.Fprintf(&cn.sb, "%T", v)
	}
}

const unsafeSizeofIface = 16

func C11(c *fw.Ctx) {
	depth, maxLen := 3, 5
	if !c.Quick() {
		depth = 4
	}
	if c.Tier == "deep" {
		depth = 5
	}
	ops := arrOps()
	c.Bound("operations", len(ops))
	c.Bound("history_depth", depth)
	c.Bound("max_array_length", maxLen)
	c.R.Rule = "breadth-first search over histories of array operations on three variables with shared ancestry (start: a=[1,2,3], b=[], c=a); after every step all variables and their লেন are printed and compared with a pure list model; states are merged on the canonical model heap (values by rank) joined with the implementation's slice fingerprint (backing-array class, cap, len of every live slice, obtained from the values Interpret returns); error steps are leaves; distinct by program text"
	c11WriteValues(c)
	scaleArrays(c)
	seen := map[string]bool{}
	type node struct{ hist []int }
	frontier := []node{{nil}}
	for d := 0; d <= depth && len(frontier) > 0; d++ {
		var next []node
		for _, nd := range frontier {
			for oi := range ops {
				if d == 0 && oi >= arrStartCount {
					break // roots: the start states
				}
				hist := append(append([]int{}, nd.hist...), oi)
				// subtrees are distributed over shards by start state and first operation
				if d >= 1 && (hist[0]*len(ops)+hist[1])%c.NShards != c.Shard {
					continue
				}
				if c.Expired() {
					continue
				}
				prog := parenAll(arrProgram(hist, ops))
				src := model.Render(prog)
				m := &model.Machine{}
				res := m.Run(prog)
				if res.Unspec != "" || res.Diverged {
					c.Skip("unspecified: " + res.Unspec)
					continue
				}
				cyclic := false
				for _, v := range arrVars {
					mv, _ := m.TopVar(v)
					if modelCyclic(mv, map[*model.ArrV]bool{}) {
						cyclic = true
					}
				}
				if cyclic {
					c.Skip("self-containing array (covered by C07)")
					continue
				}
				vals, o := h.Interpret(src, h.Opts{Fuel: fuelFor(res)})
				if d > 0 || c.Shard == 0 {
					c.Eval(src, true)
					c.R.Transitions++
				}
				base := fw.Replay{Mode: "file", Program: src, CLI: true, InStdout: o.Stdout, InStderr: o.Stderr, InStatus: o.Status}
				if abnormal(c, o, "file", src, base) {
					continue
				}
				fail := func(clause, exp, obs string) {
					r := base
					r.Sig = "C11|" + clause
					r.What = clause
					r.Expected, r.Observed = exp, obs
					c.Violate(r)
				}
				lastOp := "start"
				if len(hist) > 1 {
					lastOp = ops[hist[len(hist)-1]].Name
				}
				if why := model.CompareStdout(res, o.Stdout); why != "" {
					fail("stdout|"+opClass(lastOp), res.Stdout(), o.Stdout+" ("+why+") history "+histNames(hist, ops))
					continue
				}
				if (res.Err != nil) != (o.Stderr != "") {
					fail("error|"+opClass(lastOp), fmt.Sprintf("error=%v", res.Err), fmt.Sprintf("stderr %q history %s", trunc(o.Stderr, 120), histNames(hist, ops)))
					continue
				}
				if res.Err != nil {
					if res.Err.Line > 0 && runtimeDiagLine(o.Stderr) != res.Err.Line {
						fail("error-line|"+opClass(lastOp), fmt.Sprintf("[line %d]", res.Err.Line), trunc(o.Stderr, 120))
					}
					c.Count("error_leaves")
					continue // leaf
				}
				if len(hist) > 1 && ops[hist[len(hist)-1]].Leaf {
					continue
				}
				// canonical key: model heap + implementation fingerprint
				cn := &canon{ids: map[interface{}]int{}, ranks: map[float64]int{}}
				tooLong := false
				for _, v := range arrVars {
					mv, _ := m.TopVar(v)
					if a, ok := mv.(*model.ArrV); ok && len(a.E) > maxLen {
						tooLong = true
					}
					cn.modelVal(mv)
					cn.sb.WriteString(";")
				}
				cn.sb.WriteString("|")
				cn2 := &canon{ids: map[interface{}]int{}, ranks: cn.ranks}
				n := len(vals)
				if n >= 3 {
					for _, v := range vals[n-3:] {
						cn2.implVal(v)
						cn2.sb.WriteString(";")
					}
				} else {
					c.Note("Interpret returned no values: search degrades to plain enumeration")
					cn2.sb.WriteString(histNames(hist, ops))
				}
				key := cn.sb.String() + cn2.sb.String()
				if tooLong {
					c.Count("length_cap_leaves")
					continue
				}
				if seen[key] {
					c.Count("merged")
					continue
				}
				seen[key] = true
				c.R.States++
				if c.R.States%400 == 1 {
					c.Sample(map[string]string{"history": histNames(hist, ops), "state_key": key})
				}
				next = append(next, node{hist})
			}
		}
		frontier = next
	}
	c.R.Traces = c.R.Transitions
}

func histNames(hist []int, ops []arrOp) string {
	var s []string
	for i, o := range hist {
		if i == 0 {
			s = append(s, fmt.Sprintf("start%d", o))
			continue
		}
		s = append(s, ops[o].Name)
	}
	return strings.Join(s, " ; ")
}

// opClass abstracts an operation name for signatures.
func opClass(n string) string {
	switch {
	case strings.Contains(n, model.BiAppend):
		return "append"
	case strings.Contains(n, model.BiRemove):
		return "remove"
	case strings.HasPrefix(n, "read"), strings.HasPrefix(n, "write"):
		return "bad-index"
	case strings.Contains(n, "len"):
		return "len"
	case strings.Contains(n, "poke"):
		return "param-alias"
	case strings.Contains(n, "]="):
		return "store"
	}
	return "other"
}

func modelCyclic(v model.Value, path map[*model.ArrV]bool) bool {
	a, ok := v.(*model.ArrV)
	if !ok {
		return false
	}
	if path[a] {
		return true
	}
	path[a] = true
	defer delete(path, a)
	for _, e := range a.E {
		if modelCyclic(e, path) {
			return true
		}
	}
	return false
}

// c11WriteValues: the value of an indexed write is the value stored, wherever the write stands: every
// target x every stored-value form x every place that uses the value; judged as a script, on one line
// and as a line of the interactive prompt.
func c11WriteValues(c *fw.Ctx) {
	id, num := model.Id, model.Num
	pre := func() []*model.N {
		return []*model.N{
			model.Var("a", model.Arr(num(1), num(2), num(3))),
			model.Var("b", model.Arr(num(4), num(5), num(6))),
			model.Var("n", model.Arr(model.Arr(num(7)), model.Arr(num(8)))),
			model.Fun("idf", []string{"x"}, model.Return(id("x"))),
			model.Var("r", model.Nil()),
			model.Var("cnt", num(0)), model.Var("k", num(0)),
			model.Fun("nx", nil, model.ExprS(model.Asg("cnt", model.Bin("+", id("cnt"), num(1)))), model.Print(model.Bin("+", model.Str("nx "), id("cnt"))), model.Return(model.Bin("-", id("cnt"), num(1)))),
			model.Fun("pick", nil, model.Print(model.Str("pick")), model.Return(id("a"))),
		}
	}
	targets := []func(v *model.N) *model.N{
		// index and array expressions with side effects: evaluated exactly once per write
		func(v *model.N) *model.N { return model.IAsg(id("a"), model.CallN("nx"), v) },
		func(v *model.N) *model.N { return model.IAsg(id("a"), model.Grp(model.Asg("k", model.Bin("+", id("k"), num(1)))), v) },
		func(v *model.N) *model.N { return model.IAsg(model.CallN("pick"), num(2), v) },
		func(v *model.N) *model.N {
			return model.IAsg(id("a"), model.Grp(model.IAsg(id("b"), num(0), model.Bin("-", model.Idx(id("b"), num(0)), num(3)))), v)
		},
		func(v *model.N) *model.N { return model.IAsg(id("a"), num(1), v) },
		func(v *model.N) *model.N { return model.IAsg(id("b"), num(0), v) },
		func(v *model.N) *model.N { return model.IAsg(model.Idx(id("n"), num(1)), num(0), v) },
		func(v *model.N) *model.N {
			return model.IAsg(id("a"), model.Bin("-", model.CallN(model.BiLen, id("a")), num(1)), v)
		},
	}
	values := []func() *model.N{
		func() *model.N { return num(50) },
		func() *model.N { return model.Str("s") },
		func() *model.N { return model.Grp(model.IAsg(id("b"), num(2), num(70))) },
		func() *model.N { return id("b") },
		func() *model.N { return model.Arr(num(9)) },
		func() *model.N { return model.Nil() },
	}
	uses := []struct {
		name string
		mk   func(w *model.N) []*model.N
	}{
		{"statement", func(w *model.N) []*model.N { return []*model.N{model.ExprS(w)} }},
		{"printed", func(w *model.N) []*model.N { return []*model.N{model.Print(model.Grp(w))} }},
		{"assigned", func(w *model.N) []*model.N { return []*model.N{model.ExprS(model.Asg("r", w)), model.Print(id("r"))} }},
		{"declared", func(w *model.N) []*model.N { return []*model.N{model.Var("d", w), model.Print(id("d"))} }},
		{"stored-again", func(w *model.N) []*model.N { return []*model.N{model.ExprS(model.IAsg(id("a"), num(0), w))} }},
		{"appended", func(w *model.N) []*model.N {
			return []*model.N{model.ExprS(model.Asg("r", model.CallN(model.BiAppend, id("a"), model.Grp(w)))), model.Print(id("r"))}
		}},
		{"element", func(w *model.N) []*model.N { return []*model.N{model.Print(model.Arr(model.Grp(w), id("a")))} }},
		{"argument", func(w *model.N) []*model.N { return []*model.N{model.Print(model.CallN("idf", model.Grp(w)))} }},
		{"returned", func(w *model.N) []*model.N {
			return []*model.N{model.Fun("rw", nil, model.Return(w)), model.Print(model.CallN("rw"))}
		}},
		{"compared", func(w *model.N) []*model.N { return []*model.N{model.Print(model.Bin("==", model.Grp(w), num(50)))} }},
		{"property", func(w *model.N) []*model.N {
			return []*model.N{model.Print(model.Obj([]string{"k"}, []*model.N{model.Grp(w)}))}
		}},
		{"length", func(w *model.N) []*model.N {
			return []*model.N{model.Print(model.CallN(model.BiLen, model.Arr(model.Grp(w))))}
		}},
	}
	for ti, t := range targets {
		for vi, v := range values {
			for _, u := range uses {
				if !c.Mine() {
					continue
				}
				prog := append(pre(), u.mk(t(v()))...)
				prog = append(prog, model.Print(id("a")), model.Print(id("b")), model.Print(id("n")), model.Print(model.CallN(model.BiLen, id("a"))), model.Print(model.Arr(id("cnt"), id("k"))))
				judge(c, prog, judgeOpts{SigPrefix: fmt.Sprintf("write-value|%s|target%d|value%d", u.name, ti, vi)})
				c.R.States++
				c.R.Transitions++
			}
		}
	}
}

package checks

import (
	"fmt"
	"golang.org/x/text/unicode/norm"
	"math"
	"sort"
	"strings"

	"github.com/ah-naf/borno/token"
	"verif/internal/fw"
	"verif/internal/h"
	"verif/internal/model"
)

func init() { Registry["C09"] = C09 }

// Fragment alphabets (DESIGN §C09).
var c09Wide = []string{
	"(", ")", "{", "}", "[", "]", ",", ".", "-", "+", ";", ":", "/", "*", "^", "~", "%", "!", "=", "<", ">", "&", "|",
	"1", "০", "a", "ক", "া", "_", "\"", "\n", " ", "\t", "\r",
	"#", "@", "\\", "'", "\x00", " ",
	model.KwVar, "nil", "//", "/*", "*/",
}
var c09Munch = []string{"/", "*", "\"", "\n", " ", "a", "1", ".", "=", "<", "&", "#", "া"}

func lexCompare(c *fw.Ctx, src string) {
	toks, o := h.Lex(src, h.Opts{Fuel: 200000})
	mt, merrs := model.Lex(src)
	nontrivial := len(mt) > 2 || len(merrs) > 0
	c.Eval(src, nontrivial)
	if abnormal(c, o, "lex", src, fw.Replay{}) {
		return
	}
	fail := func(clause, detail, exp, obs string) {
		c.Violate(fw.Replay{Sig: "C09|" + clause + "|" + detail, What: clause, Mode: "lex", Program: src, Expected: exp, Observed: obs})
	}
	// 1. token list equals the model's
	if len(toks) != len(mt) {
		fail("token-count", firstDiffKind(toks, mt), renderModel(mt), renderImpl(toks))
	} else {
		for i := range mt {
			it, m := toks[i], mt[i]
			if kindOf(it.Type) != m.Kind {
				fail("token-kind", m.Kind+"-as-"+kindOf(it.Type), renderModel(mt), renderImpl(toks))
				break
			}
			if it.Lexeme != m.Lexeme {
				fail("token-lexeme", m.Kind, renderModel(mt), renderImpl(toks))
				break
			}
			if it.Line != m.Line {
				fail("token-line", m.Kind, renderModel(mt), renderImpl(toks))
				break
			}
			switch m.Kind {
			case "NUMBER":
				f, ok := it.Literal.(float64)
				if !ok || math.Float64bits(f) != math.Float64bits(m.Num) {
					fail("number-value", "", fmt.Sprint(m.Num), fmt.Sprint(it.Literal))
				}
			case "STRING":
				s, ok := litString(it.Literal)
				if !ok || s != m.Str {
					fail("string-value", "", fmt.Sprintf("%q", m.Str), fmt.Sprintf("%#v", it.Literal))
				}
			default:
				if it.Literal != nil {
					fail("stray-literal", m.Kind, "nil", fmt.Sprintf("%#v", it.Literal))
				}
			}
		}
	}
	// 2. independent partition check on the implementation's own lexemes
	rs := []rune(src)
	pos := 0
	eofs := 0
	for _, it := range toks {
		if it.Type == token.EOF {
			eofs++
			continue
		}
		lx := []rune(it.Lexeme)
		// find lexeme at or after pos with only skippable text between
		found := -1
		for p := pos; p+len(lx) <= len(rs); p++ {
			if string(rs[p:p+len(lx)]) == it.Lexeme {
				found = p
				break
			}
		}
		if found < 0 || len(lx) == 0 {
			fail("partition", "lexeme-not-in-order", "lexemes occur in source order", renderImpl(toks))
			break
		}
		// line = 1 + newlines before last char of the lexeme
		ln := 1 + strings.Count(string(rs[:found+len(lx)-1]), "\n")
		_ = ln
		pos = found + len(lx)
	}
	if eofs != 1 || len(toks) == 0 || toks[len(toks)-1].Type != token.EOF {
		fail("eof", "", "exactly one EOF, last", renderImpl(toks))
	}
	// 3. diagnostics: one per error event, each naming a line inside the text
	diags := diagLines(o.Stderr)
	if len(diags) != len(merrs) {
		kind := "none"
		if len(merrs) > 0 {
			kind = merrs[0].Kind
		}
		fail("diag-count", kind, fmt.Sprintf("%d diagnostics (%v)", len(merrs), merrs), fmt.Sprintf("%d: %q", len(diags), o.Stderr))
	}
	maxLine := 1 + strings.Count(src, "\n")
	for _, d := range diags {
		if d < 1 || d > maxLine {
			fail("diag-line", "", fmt.Sprintf("1..%d", maxLine), fmt.Sprint(d))
		}
	}
	if (len(merrs) > 0) != o.HadError {
		fail("flag", "", fmt.Sprint(len(merrs) > 0), fmt.Sprint(o.HadError))
	}
}

func litString(v interface{}) (string, bool) {
	switch s := v.(type) {
	case string:
		return s, true
	case []rune:
		return string(s), true
	}
	return "", false
}

// diagLines extracts N from every "[line N] Error..." line of stderr.
func diagLines(stderr string) []int {
	var out []int
	for _, l := range strings.Split(stderr, "\n") {
		if strings.HasPrefix(l, "[line ") {
			var n int
			fmt.Sscanf(l, "[line %d]", &n)
			out = append(out, n)
		}
	}
	return out
}

func firstDiffKind(toks []token.Token, mt []model.Tok) string {
	for i := 0; i < len(toks) && i < len(mt); i++ {
		if kindOf(toks[i].Type) != mt[i].Kind {
			return mt[i].Kind + "-as-" + kindOf(toks[i].Type)
		}
	}
	if len(mt) > len(toks) {
		return "missing-" + mt[len(toks)].Kind
	}
	return "extra-" + kindOf(toks[len(mt)].Type)
}

func renderModel(mt []model.Tok) string {
	var sb strings.Builder
	for _, t := range mt {
		fmt.Fprintf(&sb, "%s(%q)@%d ", t.Kind, t.Lexeme, t.Line)
	}
	return sb.String()
}
func renderImpl(toks []token.Token) string {
	var sb strings.Builder
	for _, t := range toks {
		fmt.Fprintf(&sb, "%s(%q)@%d ", kindOf(t.Type), t.Lexeme, t.Line)
	}
	return sb.String()
}

// enumStrings calls f on every concatenation of up to maxLen fragments
// (shorter first), honouring the shard partition.
func enumStrings(c *fw.Ctx, frags []string, maxLen int, f func(string)) {
	idx := make([]int, maxLen)
	for L := 0; L <= maxLen; L++ {
		for i := 0; i < L; i++ {
			idx[i] = 0
		}
		for {
			if c.Mine() {
				var sb strings.Builder
				for i := 0; i < L; i++ {
					sb.WriteString(frags[idx[i]])
				}
				f(sb.String())
			}
			// increment
			k := L - 1
			for k >= 0 {
				idx[k]++
				if idx[k] < len(frags) {
					break
				}
				idx[k] = 0
				k--
			}
			if k < 0 {
				break
			}
		}
	}
}

func C09(c *fw.Ctx) {
	wideLen, munchLen := 3, 6
	if !c.Quick() {
		wideLen, munchLen = 4, 7
	}
	if c.Tier == "deep" {
		wideLen, munchLen = 5, 8
	}
	c.Bound("wide_alphabet_fragments", len(c09Wide))
	c.Bound("wide_max_len", wideLen)
	c.Bound("munch_alphabet_fragments", len(c09Munch))
	c.Bound("munch_max_len", munchLen)
	c.R.Rule = "every concatenation of <=L fragments over the lexical alphabets, plus every Unicode scalar value alone and as a□ / □1; a case is non-trivial when the model yields a token besides EOF or an error event; distinct by text"
	enumStrings(c, c09Wide, wideLen, func(s string) { lexCompare(c, s) })
	enumStrings(c, c09Munch, munchLen, func(s string) { lexCompare(c, s) })
	// every code point alone and in two contexts
	for r := rune(0); r <= 0x10FFFF; r++ {
		if r >= 0xD800 && r <= 0xDFFF {
			continue
		}
		for _, s := range []string{string(r), "a" + string(r), string(r) + "1"} {
			if c.Mine() {
				lexCompare(c, s)
			}
		}
	}
	// near-keywords: for every keyword and built-in name, the spellings one edit away from it -- each
	// character deleted, doubled, replaced by its canonical (de)composition or swapped with its neighbour;
	// the NFC and NFD forms of the whole word; a joiner or a combining mark inserted at every position; each
	// alone, after `a ` and before `;`: a word is a keyword exactly when it equals one
	{
		words := []string{}
		for k := range model.Keywords {
			words = append(words, k)
		}
		words = append(words, model.Builtins...)
		sort.Strings(words)
		seenW := map[string]bool{}
		var variants []string
		add := func(w string) {
			if w != "" && !seenW[w] {
				seenW[w] = true
				variants = append(variants, w)
			}
		}
		for _, w := range words {
			rs := []rune(w)
			add(w)
			add(norm.NFC.String(w))
			add(norm.NFD.String(w))
			add(norm.NFKC.String(w))
			for i := range rs {
				add(string(rs[:i]) + string(rs[i+1:]))
				add(string(rs[:i+1]) + string(rs[i:]))
				add(string(rs[:i]) + norm.NFD.String(string(rs[i])) + string(rs[i+1:]))
				add(string(rs[:i]) + norm.NFC.String(string(rs[i])) + string(rs[i+1:]))
				if i+1 < len(rs) {
					add(string(rs[:i]) + string(rs[i+1]) + string(rs[i]) + string(rs[i+2:]))
					add(string(rs[:i]) + norm.NFC.String(string(rs[i:i+2])) + string(rs[i+2:]))
				}
				for _, ins := range []string{"\u200c", "\u200d", "\u09bc", "\u0301", "_", "\u09cd"} {
					add(string(rs[:i+1]) + ins + string(rs[i+1:]))
				}
			}
		}
		c.Bound("near_keyword_spellings", len(variants))
		for _, v := range variants {
			for _, s := range []string{v, "a " + v, v + ";", v + "(", "1" + v} {
				if c.Mine() {
					lexCompare(c, s)
				}
			}
		}
	}
	// many distinct words in ONE text: every word of length 2 over eight characters and of length 3 over
	// five, in four orders, with the keywords and built-in names interleaved; each token carries its own
	// piece of the text (a table of words keyed by anything less than the word itself would mix them up)
	{
		var words []string
		a2 := []string{"A", "B", "C", "a", "b", "c", "\u0995", "\u0996"}
		for _, x := range a2 {
			for _, y := range a2 {
				words = append(words, x+y)
			}
		}
		a3 := []string{"A", "B", "a", "b", "\u0995"}
		for _, x := range a3 {
			for _, y := range a3 {
				for _, z := range a3 {
					words = append(words, x+y+z)
				}
			}
		}
		var kws []string
		for k := range model.Keywords {
			kws = append(kws, k)
		}
		sort.Strings(kws)
		kws = append(kws, model.Builtins...)
		for order := 0; order < 4; order++ {
			if !c.Mine() {
				continue
			}
			var parts []string
			n := len(words)
			for i := 0; i < n; i++ {
				j := i
				switch order {
				case 1:
					j = n - 1 - i
				case 2:
					j = (i * 7) % n
				case 3:
					j = (i*13 + 5) % n
				}
				parts = append(parts, words[j])
				if i%5 == order {
					parts = append(parts, kws[(i/5)%len(kws)])
				}
			}
			lexCompare(c, strings.Join(parts, " "))
			lexCompare(c, strings.Join(parts, "\n"))
		}
	}
	c.Bound("code_points", "all 1 112 064 scalar values x {alone, a□, □1}")
	c.R.States = c.R.Evaluations
	c.R.Transitions = c.R.Evaluations
	c.R.Traces = c.R.Evaluations
	c.Sample(map[string]string{"text": "a/*\n*/<=1.০\"x\ny\""})
}

package checks

import (
	"fmt"
	"strings"

	"verif/internal/fw"
	"verif/internal/model"
)

func init() { Registry["C05"] = C05 }

// skeleton enumeration (DESIGN Appendix D.2).  A generator state carries the
// remaining size budget; emit is called with each complete statement and the
// budget it used.
type skGen struct {
	maxDepth int
	tags     int
	loops    int
	decls    bool // also emit declaration leaves (single, list, function) -- scopes re-entered by loops
}

type skCtx struct {
	depth   int
	inLoop  bool
	counter string // innermost loop counter, "" outside loops
	limVar  string // innermost loop whose limit is a variable: that variable ("" otherwise)
	declOK  bool   // the position takes a declaration (a member of a block or of the program, not a bare branch / body)
}

func (g *skGen) conds(cx skCtx) []func() *model.N {
	out := []func() *model.N{
		func() *model.N { return model.Bool(true) },
		func() *model.N { return model.Bool(false) },
	}
	if cx.counter != "" {
		i := cx.counter
		out = append(out,
			func() *model.N { return model.Bin("==", model.Id(i), model.Num(1)) },
			func() *model.N { return model.Bin("<", model.Id(i), model.Num(1)) })
	}
	return out
}

// seqs enumerates sequences of 0..2 statements using at most budget nodes.
func (g *skGen) seqs(budget int, cx skCtx, emit func(st []*model.N, used int)) {
	emit(nil, 0)
	cx.declOK = true
	g.stmts(budget, cx, func(a *model.N, ua int) {
		emit([]*model.N{a}, ua)
		g.stmts(budget-ua, cx, func(b *model.N, ub int) {
			emit([]*model.N{a.Clone(), b}, ua+ub)
		})
	})
}

// stmts enumerates single statements S using at most budget nodes (>=1).
func (g *skGen) stmts(budget int, cx skCtx, emit func(s *model.N, used int)) {
	if budget < 1 {
		return
	}
	// trace point
	emit(model.Print(model.Str("t")), 1)
	if g.decls && cx.declOK {
		emit(model.Var("d", model.Num(1)), 1)
		emit(model.VarList([]string{"d", "e"}, []*model.N{model.Num(1), model.Num(2)}), 1)
		emit(model.VarList([]string{"e", "d"}, []*model.N{nil, model.Num(2)}), 1)
		emit(model.Fun("d", nil, model.Return(model.Num(3))), 1)
	}
	if g.decls && cx.limVar != "" {
		// the limit variable of the enclosing loop lowered / raised from inside the loop
		emit(model.ExprS(model.Asg(cx.limVar, model.Num(1))), 1)
		emit(model.ExprS(model.Asg(cx.limVar, model.Num(4))), 1)
	}
	if cx.inLoop {
		emit(model.Break(), 1)
		emit(model.Continue(), 1)
	}
	if cx.depth >= g.maxDepth {
		return
	}
	in := cx
	in.depth++
	in.declOK = false
	// if / if-else
	for _, mk0 := range g.conds(cx) {
		mk0 := mk0
		// conditions are traced: how often and in which order they are evaluated is part of the trace
		mk := func() *model.N { return model.CallN("p", model.Str("c"), mk0()) }
		g.stmts(budget-1, in, func(t *model.N, ut int) {
			emit(model.If(mk(), t, nil), 1+ut)
			g.stmts(budget-1-ut, in, func(e *model.N, ue int) {
				emit(model.If(mk(), t.Clone(), e), 1+ut+ue)
			})
		})
	}
	// block
	g.seqs(budget-1, in, func(st []*model.N, u int) {
		emit(model.Block(st...), 1+u)
	})
	// while
	g.loops++
	iw := fmt.Sprintf("i%d", cx.depth)
	lw := in
	lw.inLoop, lw.counter = true, iw
	for _, cw := range []func() *model.N{
		func() *model.N { return model.Bin("<", model.Id(iw), model.Num(2)) },
		func() *model.N { return model.Bin("<", model.Id(iw), model.Num(3)) },
		func() *model.N { return model.Bool(true) },
	} {
		cw := cw
		constTrue := cw().K == "bool"
		g.seqs(budget-1, lw, func(st []*model.N, u int) {
			if constTrue && !hasOwnBreak(st) {
				return // never terminates: outside every domain
			}
			body := append([]*model.N{model.ExprS(model.Asg(iw, model.Bin("+", model.Id(iw), model.Num(1))))}, st...)
			emit(model.Block(model.Var(iw, model.Num(0)), model.While(model.CallN("p", model.Str("w"), cw()), model.Block(body...))), 1+u)
		})
	}
	// for, with traced header clauses
	jf := fmt.Sprintf("j%d", cx.depth)
	lf := in
	lf.inLoop, lf.counter = true, jf
	P := func(tag string, v *model.N) *model.N { return model.CallN("p", model.Str(tag), v) }
	for ci, cf := range []func() *model.N{
		func() *model.N { return P("C", model.Bin("<", model.Id(jf), model.Num(2))) },
		func() *model.N { return P("C", model.Bool(true)) },
		func() *model.N { return nil },
	} {
		cf := cf
		constTrue := ci > 0
		hdr := func(body *model.N) *model.N {
			return model.For(model.Var(jf, P("I", model.Num(0))), cf(), model.Asg(jf, P("U", model.Bin("+", model.Id(jf), model.Num(1)))), body)
		}
		// body as a bare statement
		g.stmts(budget-1, lf, func(b *model.N, u int) {
			if b.K == "block" {
				return // covered by the block form below
			}
			if constTrue && !hasOwnBreak([]*model.N{b}) {
				return
			}
			emit(hdr(b), 1+u)
		})
		g.seqs(budget-1, lf, func(st []*model.N, u int) {
			if constTrue && !hasOwnBreak(st) {
				return
			}
			emit(hdr(model.Block(st...)), 1+u)
		})
	}
	if g.decls {
		// a for loop whose condition compares its counter with a variable (bare comparison, both operand
		// orders) that the body may assign
		lm, mv := fmt.Sprintf("lim%d", cx.depth), fmt.Sprintf("m%d", cx.depth)
		ll := in
		ll.inLoop, ll.counter, ll.limVar = true, mv, lm
		for form := 0; form < 2; form++ {
			form := form
			g.seqs(budget-1, ll, func(st []*model.N, u int) {
				cond := model.Bin("<", model.Id(mv), model.Id(lm))
				if form == 1 {
					cond = model.Bin(">=", model.Id(lm), model.Bin("+", model.Id(mv), model.Num(1)))
				}
				body := append([]*model.N{model.Print(model.Str("t"))}, st...)
				emit(model.Block(model.Var(lm, model.Num(3)), model.For(model.Var(mv, model.Num(0)), cond, model.Asg(mv, model.Bin("+", model.Id(mv), model.Num(1))), model.Block(body...))), 1+u)
			})
		}
	}
	// for without an increment clause (the body bumps the counter first), and the bare (;;) form
	kf := fmt.Sprintf("k%d", cx.depth)
	lk := in
	lk.inLoop, lk.counter = true, kf
	bumpK := func() *model.N { return model.ExprS(model.Asg(kf, model.Bin("+", model.Id(kf), model.Num(1)))) }
	g.seqs(budget-1, lk, func(st []*model.N, u int) {
		body := append([]*model.N{bumpK()}, st...)
		emit(model.For(model.Var(kf, model.Num(0)), model.Bin("<", model.Id(kf), model.Num(2)), nil, model.Block(body...)), 1+u)
		if hasOwnBreak(st) {
			emit(model.Block(model.Var(kf, model.Num(0)), model.For(nil, nil, nil, model.Block(cloneList(body)...))), 1+u)
		}
		emit(model.Block(model.Var(kf, model.Num(0)), model.For(nil, model.Bin("<", model.Id(kf), model.Num(2)), nil, model.Block(cloneList(body)...))), 1+u)
	})
	// while with a bare (unbraced) body; the condition itself advances the counter
	tw := fmt.Sprintf("c%d", cx.depth)
	lt := in
	lt.inLoop, lt.counter = true, tw
	g.stmts(budget-1, lt, func(b *model.N, u int) {
		if b.K == "block" {
			return
		}
		cond := model.Bin("<", model.Grp(model.Asg(tw, model.Bin("+", model.Id(tw), model.Num(1)))), model.Num(3))
		emit(model.Block(model.Var(tw, model.Num(0)), model.While(cond, b)), 1+u)
	})
}

func cloneList(l []*model.N) []*model.N {
	out := make([]*model.N, len(l))
	for i, n := range l {
		out[i] = n.Clone()
	}
	return out
}

// hasOwnBreak: some break statement belongs to the loop whose body this is.
func hasOwnBreak(st []*model.N) bool {
	for _, s := range st {
		if s == nil {
			continue
		}
		switch s.K {
		case "break":
			return true
		case "if":
			if hasOwnBreak(s.A[1:]) {
				return true
			}
		case "block":
			if hasOwnBreak(s.A) {
				return true
			}
		}
	}
	return false
}

// retag gives every trace point a unique tag in program order.
func retag(n *model.N, k *int) {
	if n == nil {
		return
	}
	if n.K == "print" && n.A[0].K == "str" && n.A[0].S == "t" {
		*k++
		n.A[0] = model.Str(fmt.Sprintf("t%d", *k))
		return
	}
	for _, a := range n.A {
		retag(a, k)
	}
}

func C05(c *fw.Ctx) {
	size, depth := 5, 3
	if !c.Quick() {
		size = 6
	}
	if c.Tier == "deep" {
		size = 7
	}
	c.Bound("skeleton_max_size", size)
	c.Bound("skeleton_max_depth", depth)
	c.R.Rule = "every statement skeleton (trace point, if, if-else, block, while, for with traced header clauses, break, continue; conditions from a pool) up to the size and depth bound, between two trace points; compared on the full trace; non-trivial = model terminates within its step budget; distinct by text"
	prelude := func() []*model.N {
		return []*model.N{model.Fun("p", []string{"t", "v"}, model.Print(model.Id("t")), model.Return(model.Id("v")))}
	}
	g := &skGen{maxDepth: depth}
	mach := func() *model.Machine { return &model.Machine{MaxSteps: 3000} }
	pool := newProgPool(40)
	defer func() {
		// every ordered pair of an evenly spread sub-sequence of this shard's skeleton programs, as `{ P } { Q }`
		composePairs(c, "skeletons", pool, judgeOpts{Machine: &model.Machine{MaxSteps: 6000}})
	}()
	n := 0
	g.stmts(size, skCtx{}, func(s *model.N, used int) {
		n++
		if !c.Mine() {
			return
		}
		s = s.Clone()
		prog := append(prelude(), model.Print(model.Str("begin")), s, model.Print(model.Str("end")))
		k := 0
		retag(s, &k)
		pool.offer(prog)
		_, _, skipped := judge(c, prog, judgeOpts{Machine: mach(), SigPrefix: "skeleton"})
		if !skipped {
			c.R.States++
		}
		if n%50000 == 1 {
			c.Sample(map[string]string{"program": model.Render(parenAll(prog))})
		}
	})
	c.Bound("skeletons", n)
	// the same search, one size smaller, with declaration leaves (a single declaration, two forms of
	// declaration list, a function declaration): every block and loop body is a scope that is left and
	// re-entered, so a declaration in it must neither leak out nor collide with its own earlier execution
	gd := &skGen{maxDepth: depth, decls: true}
	nd := 0
	gd.stmts(size-1, skCtx{declOK: true}, func(s *model.N, used int) {
		hasDecl := false
		var walk func(x *model.N)
		walk = func(x *model.N) {
			if x == nil {
				return
			}
			if (x.K == "var" && len(x.Names) > 0 && (x.Names[0] == "d" || x.Names[0] == "e" || strings.HasPrefix(x.Names[0], "lim"))) || (x.K == "fun" && x.S == "d") {
				hasDecl = true
			}
			for _, k := range x.A {
				walk(k)
			}
		}
		walk(s)
		if !hasDecl {
			return
		}
		nd++
		if !c.Mine() {
			return
		}
		s = s.Clone()
		prog := append(prelude(), model.Print(model.Str("begin")), s, model.Print(model.Str("end")))
		k := 0
		retag(s, &k)
		_, _, skipped := judge(c, prog, judgeOpts{Machine: mach(), SigPrefix: "skeleton-with-declarations", NoOneLine: true})
		if !skipped {
			c.R.States++
		}
	})
	c.Bound("skeletons_with_declarations", nd)
	// else-if ladders of 2-4 rungs, every combination of truth values, conditions with side effects
	for rungs := 2; rungs <= 4; rungs++ {
		for mask := 0; mask < 1<<rungs; mask++ {
			for tail := 0; tail < 2; tail++ {
				if !c.Mine() {
					continue
				}
				var ladder *model.N
				if tail == 1 {
					ladder = model.Block(model.Print(model.Str("else-arm")))
				}
				for r := rungs - 1; r >= 0; r-- {
					// the condition bumps a counter and compares: evaluated exactly once, in order
					cond := model.Log(model.KwAnd, model.Bin(">", model.Grp(model.Asg("n", model.Bin("+", model.Id("n"), model.Num(1)))), model.Num(0)), model.Bool(mask&(1<<r) != 0))
					ladder = model.If(model.CallN("p", model.Str(fmt.Sprintf("C%d", r)), cond), model.Block(model.Print(model.Str(fmt.Sprintf("arm%d", r)))), ladder)
				}
				prog := []*model.N{model.Fun("p", []string{"t", "v"}, model.Print(model.Id("t")), model.Return(model.Id("v"))), model.Var("n", model.Num(0)),
					ladder, model.Print(model.Id("n")),
					model.For(model.Var("i", model.Num(0)), model.Bin("<", model.Id("i"), model.Num(2)), model.Asg("i", model.Bin("+", model.Id("i"), model.Num(1))), model.Block(ladder.Clone())), model.Print(model.Id("n"))}
				if _, _, skipped := judge(c, prog, judgeOpts{SigPrefix: "else-if-ladder"}); !skipped {
					c.R.States++
				}
			}
		}
	}
	// every value as the condition of every construct: bare literal, parenthesised, through a variable, negated twice
	for _, v := range c14Values() {
		for form := 0; form < 4; form++ {
			if !c.Mine() {
				continue
			}
			mk := func() *model.N {
				switch form {
				case 1:
					return model.Grp(v.Mk())
				case 2:
					return model.Id("cv")
				case 3:
					return model.Un("!", model.Un("!", v.Mk()))
				}
				return v.Mk()
			}
			prog := []*model.N{model.Fun("uf", nil), model.Var("cv", v.Mk()), model.Var("n", model.Num(0)),
				model.If(mk(), model.Print(model.Str("then")), model.Print(model.Str("else"))),
				model.If(mk(), model.Print(model.Str("then-only")), nil),
				model.If(mk(), model.Block(model.Print(model.Str("then-block"))), model.If(mk(), model.Print(model.Str("elif")), model.Print(model.Str("else2")))),
				model.While(mk(), model.Block(model.Print(model.Str("while-body")), model.Break())),
				model.While(model.Log(model.KwAnd, mk(), model.Bin("<", model.Id("n"), model.Num(2))), model.ExprS(model.Asg("n", model.Bin("+", model.Id("n"), model.Num(1))))),
				model.Print(model.Id("n")),
				model.For(nil, mk(), nil, model.Block(model.Print(model.Str("for-body")), model.Break())),
				model.For(model.Var("i", model.Num(0)), model.Log(model.KwAnd, model.Bin("<", model.Id("i"), model.Num(2)), mk()), model.Asg("i", model.Bin("+", model.Id("i"), model.Num(1))), model.Print(model.Id("i"))),
				model.Print(model.Str("end"))}
			_, _, skipped := judge(c, prog, judgeOpts{SigPrefix: "condition-value"})
			if !skipped {
				c.R.States++
			}
		}
	}
	// stray break / continue / return at top level
	for _, st := range []func() *model.N{model.Break, model.Continue, func() *model.N { return model.Return(nil) }, func() *model.N { return model.Return(model.Num(1)) }} {
		for _, wrap := range []func(*model.N) *model.N{
			func(x *model.N) *model.N { return x },
			func(x *model.N) *model.N { return model.Block(x) },
			func(x *model.N) *model.N { return model.If(model.Bool(true), x, nil) },
			func(x *model.N) *model.N { return model.If(model.Bool(false), model.Print(model.Str("no")), x) },
			func(x *model.N) *model.N { return model.Block(model.Block(x)) },
		} {
			if !c.Mine() {
				continue
			}
			prog := []*model.N{model.Print(model.Str("before")), wrap(st()), model.Print(model.Str("after"))}
			judge(c, prog, judgeOpts{SigPrefix: "stray"})
			c.R.States++
		}
	}
	c.R.Transitions = c.R.States
	c.R.Traces = c.R.States
}

package checks

import (
	"fmt"
	"os"
	"strings"

	"verif/internal/fw"
	"verif/internal/h"
	"verif/internal/model"
)

func init() { Registry["C20"] = C20 }

func replPool() []string {
	return []string{
		model.KwPrint + " 1 + 2;",
		"1 + 2;",
		"\"s\";",
		"nil;",
		model.BiLen + "([1, 2]);",
		model.KwVar + " v = 1;",
		"#",
		"\"open",
		"1 +;",
		model.KwPrint + " ;",
		"1 / 0;",
		"zz;",
		model.KwPrint + " nil + 1;",
		model.KwBreak + ";",
		"",
		"// c",
		"1; \"two\"; " + model.KwPrint + " 3;",
		model.BiSqrt + "(16) == 4;",
		"{ " + model.KwVar + " w = 2; " + model.KwPrint + " w * 2; }",
		"/* open",
		model.KwFun + " f() { " + model.KwReturn + " 7; } " + model.KwPrint + " f();",
		model.BiAbs + "();",
		model.BiLen + " = 0;",                                              // assignment to a built-in name (allowed by the grammar)
		model.BiLen + " = 0; " + model.BiLen + "([1]);",                    // ... followed by a failing use in the same line
		model.BiMax + " = nil; " + model.KwPrint + " " + model.BiMax + ";", // ... and a print of the rebound name
		model.KwPrint + " " + model.BiMax + "(2, 7);",
		model.KwPrint + " \"pre\"; " + model.KwBreak + ";",                 // output, then a stray break
		model.KwPrint + " \"pre\"; " + model.KwReturn + " 1;",              // output, then a stray return
		model.KwPrint + " \"pre\"; " + model.KwContinue + ";",              // output, then a stray continue
		model.KwPrint + " \"pre\"; 1 / 0; " + model.KwPrint + " \"post\";", // output, a runtime error, more output
		"\"echoed\"; zz;",                         // an echo, then an undefined name
		model.KwPrint + " " + model.BiInput + ";", // a built-in printed (no call)
		"# @ # @ # @ # @ # @ # @ # @",             // a line with many lexical errors
		"1 +; 2 +; ) ) ) ; ; ;",                   // a line with a syntax error followed by more garbage
		// a literal too large for a double, declared, and used again in another statement form
		model.KwVar + " big = " + strings.Repeat("9", 400) + ";",
		model.KwPrint + " 1 / " + strings.Repeat("9", 400) + ";",
		// a function whose body ends in a loop-less break / continue, called, followed by bare expressions
		model.KwFun + " sb() { " + model.KwBreak + "; } sb(); 7;",
		model.KwFun + " sc() { " + model.KwPrint + " 1; " + model.KwContinue + "; } 5; sc(); 6;",
		// loops without a condition: one that fails inside, one that fails before its guarded break, one that ends
		model.KwFor + " (;;) { " + model.KwPrint + " 1 / 0; }",
		model.KwVar + " n = 0; " + model.KwFor + " (;; n = n + 1) { " + model.KwIf + " (n > 2) { " + model.KwBreak + "; } zz; }",
		model.KwFor + " (;;) { " + model.KwPrint + " 7; " + model.KwBreak + "; }",
		// a runtime error at the bottom of a thousand nested calls, and deep recursions that succeed
		model.KwFun + " df(n) { " + model.KwIf + " (n > 0) { " + model.KwReturn + " df(n - 1); } " + model.KwReturn + " 1 / 0; } df(1000);",
		model.KwFun + " dg(n) { " + model.KwIf + " (n > 0) { " + model.KwReturn + " dg(n - 1) + 1; } " + model.KwReturn + " 0; } dg(999);",
		model.KwFun + " dh(n) { " + model.KwIf + " (n > 0) { " + model.KwReturn + " dh(n - 1) + 1; } " + model.KwReturn + " 0; } dh(60);",
	}
}

// splitPrompts splits REPL stdout at the prompts.
func splitPrompts(out string) ([]string, bool) {
	if !strings.HasPrefix(out, ">> ") {
		return nil, false
	}
	return strings.Split(out[3:], ">> "), true
}

func C20(c *fw.Ctx) {
	maxLen := 3
	if !c.Quick() {
		maxLen = 4
	}
	if c.Tier == "deep" {
		maxLen = 5
	}
	pool := replPool()
	c.Bound("pool_lines", len(pool))
	c.Bound("session_max_lines", maxLen)
	c.R.Rule = "every session of up to L lines over a pool of representative lines (printing statement, bare expressions, silent declaration, block, function, lexical / syntax / runtime errors, stray break, empty line, comment) run through the rewritten main package's read-eval loop: response i equals the response the same line gets as the only line of a fresh session, stderr is the concatenation of the per-line stderr, bare expressions echo the model's text, end of input ends with status 0 after a final prompt; distinct by session text"
	// calibration: every pool line alone in a fresh session
	type calRes struct{ out, err string }
	cal := make([]calRes, len(pool))
	for i, l := range pool {
		o := h.RunRepl(l+"\n", h.Opts{})
		base := fw.Replay{Mode: "repl", Program: l + "\n", CLI: true, InStdout: o.Stdout, InStderr: o.Stderr, InStatus: o.Status}
		if c.Shard == 0 {
			c.Eval(l, true)
		}
		if abnormal(c, o, "repl", l+"\n", base) {
			continue
		}
		parts, ok := splitPrompts(o.Stdout)
		if !ok || len(parts) != 2 || parts[1] != "" || o.Status != 0 {
			if c.Shard == 0 {
				r := base
				r.Sig = "C20|single-line-shape"
				r.What = "a one-line session must be: prompt, response, prompt, status 0"
				r.Expected = ">> <response>>> "
				r.Observed = fmt.Sprintf("stdout %q status %d", o.Stdout, o.Status)
				c.Violate(r)
			}
			continue
		}
		cal[i] = calRes{parts[0], o.Stderr}
		// the model's view of this line: echo of bare expressions, prints, errors
		if c.Shard == 0 {
			prog, err := model.ParseSource(l)
			if err == nil {
				m := &model.Machine{Repl: true}
				res := m.Run(prog)
				if res.Unspec == "" && !res.Diverged {
					if why := model.CompareStdout(res, parts[0]); why != "" {
						r := base
						r.Sig = "C20|echo"
						r.What = "response of a valid line (prints and echoed expression values)"
						r.Expected, r.Observed = res.Stdout(), parts[0]+" ("+why+")"
						c.Violate(r)
					}
					if (res.Err != nil) != (o.Stderr != "") {
						r := base
						r.Sig = "C20|line-error"
						r.What = "a line reports an error iff it fails"
						r.Expected, r.Observed = fmt.Sprint(res.Err), o.Stderr
						c.Violate(r)
					}
				}
			} else if o.Stderr == "" {
				r := base
				r.Sig = "C20|line-error"
				r.What = "an invalid line must be diagnosed"
				r.Expected, r.Observed = "a diagnostic", "none"
				c.Violate(r)
			}
		}
	}
	// sessions
	seq := make([]int, 0, maxLen)
	var rec func()
	rec = func() {
		if len(seq) >= 1 && c.Mine() {
			var sb strings.Builder
			wantErr := ""
			for _, i := range seq {
				sb.WriteString(pool[i] + "\n")
				wantErr += cal[i].err
			}
			session := sb.String()
			// last line with and without terminator
			for _, trim := range []bool{false, true} {
				s := session
				if trim {
					s = strings.TrimSuffix(s, "\n")
					if pool[seq[len(seq)-1]] == "" {
						continue
					}
				}
				o := h.RunRepl(s, h.Opts{})
				c.Eval(s, true)
				c.R.States++
				c.R.Transitions++
				base := fw.Replay{Mode: "repl", Program: s, CLI: true, InStdout: o.Stdout, InStderr: o.Stderr, InStatus: o.Status}
				if abnormal(c, o, "repl", s, base) {
					continue
				}
				c.Outcome(o.Stdout + "\x00" + o.Stderr)
				fail := func(clause, exp, obs string) {
					r := base
					r.Sig = "C20|" + clause
					r.What = clause
					r.Expected, r.Observed = exp, obs
					c.Violate(r)
				}
				if o.Status != 0 {
					fail("status", "0 at end of input", fmt.Sprint(o.Status))
				}
				parts, ok := splitPrompts(o.Stdout)
				if !ok || len(parts) != len(seq)+1 || parts[len(parts)-1] != "" {
					fail("prompts", fmt.Sprintf("%d prompts, the last one after the last response", len(seq)+1), fmt.Sprintf("%q", o.Stdout))
					continue
				}
				for k, i := range seq {
					if parts[k] != cal[i].out {
						fail(fmt.Sprintf("response-altered|after-%s", lineClass(pool, seq, k)), fmt.Sprintf("line %d %q responds %q as in a fresh session", k+1, pool[i], cal[i].out), fmt.Sprintf("%q", parts[k]))
						break
					}
				}
				if o.Stderr != wantErr {
					fail("stderr-altered", fmt.Sprintf("%q", wantErr), fmt.Sprintf("%q", o.Stderr))
				}
			}
		}
		if len(seq) == maxLen {
			return
		}
		for i := range pool {
			seq = append(seq, i)
			rec()
			seq = seq[:len(seq)-1]
		}
	}
	rec()
	// repetition sessions: one line repeated R times, then every pool line: whatever a line
	// accumulates (counters, caches, buffers) must not reach later lines
	reps := 12
	if !c.Quick() {
		reps = 40
	}
	c.Bound("repetition_sessions", fmt.Sprintf("%d pool lines x %d repetitions x %d follow-up lines", len(pool), reps, len(pool)))
	for i := range pool {
		for j := range pool {
			if !c.Mine() {
				continue
			}
			var sb strings.Builder
			wantErr := ""
			for k := 0; k < reps; k++ {
				sb.WriteString(pool[i] + "\n")
				wantErr += cal[i].err
			}
			sb.WriteString(pool[j] + "\n")
			wantErr += cal[j].err
			s := sb.String()
			o := h.RunRepl(s, h.Opts{})
			c.Eval(s, true)
			c.R.States++
			c.R.Transitions++
			base := fw.Replay{Mode: "repl", Program: s, CLI: true, InStdout: o.Stdout, InStderr: o.Stderr, InStatus: o.Status}
			if abnormal(c, o, "repl", s, base) {
				continue
			}
			parts, ok := splitPrompts(o.Stdout)
			good := ok && len(parts) == reps+2 && o.Status == 0 && o.Stderr == wantErr && parts[reps] == cal[j].out
			if good {
				for k := 0; k < reps; k++ {
					if parts[k] != cal[i].out {
						good = false
					}
				}
			}
			if !good {
				r := base
				r.Sig = "C20|repetition-session"
				r.What = "after a line repeated many times, a line must still respond as in a fresh session"
				r.Expected = fmt.Sprintf("%d x %q then %q; stderr %q", reps, cal[i].out, cal[j].out, trunc(wantErr, 200))
				r.Observed = fmt.Sprintf("status %d stdout %q stderr %q", o.Status, trunc(o.Stdout, 300), trunc(o.Stderr, 300))
				c.Violate(r)
			}
		}
	}
	// the real executable on a sample of sessions
	if cli := os.Getenv("VERIF_CLI"); cli != "" && c.Shard == 0 {
		dir, _ := os.MkdirTemp(os.Getenv("VERIF_SCRATCH"), "c20.")
		defer os.RemoveAll(dir)
		for i := range pool {
			for j := range pool {
				if (i*len(pool)+j)%7 != 0 && !(i >= 6 && i <= 13 && j < 5) {
					continue
				}
				s := pool[i] + "\n" + pool[j] + "\n"
				r := runCLIHere(cli, dir, nil, s, false)
				c.Count("cli_runs")
				c.Eval("cli"+s, true)
				parts, ok := splitPrompts(r.Stdout)
				if r.Status != 0 || !ok || len(parts) != 3 || parts[0] != cal[i].out || parts[1] != cal[j].out || r.Stderr != cal[i].err+cal[j].err {
					c.Violate(fw.Replay{Sig: "C20|cli-session", What: "the executable's session differs from the per-line calibration", Mode: "repl", Program: s, CLI: true,
						Expected: fmt.Sprintf("%q %q / %q", cal[i].out, cal[j].out, cal[i].err+cal[j].err), Observed: fmt.Sprintf("status %d stdout %q stderr %q", r.Status, r.Stdout, r.Stderr),
						InStdout: r.Stdout, InStderr: r.Stderr, InStatus: r.Status})
				}
			}
		}
	}
	c.R.Traces = c.R.States
	// a line of any length gets its response and the session goes on: a valid, a syntactically wrong and a
	// failing line stretched by blanks to every power of two from 2^12 to 2^17 (+-1), followed by a probe
	{
		probe := model.BiLen + "([1, 2]);"
		for k := 12; k <= 17; k++ {
			for d := -1; d <= 1; d++ {
				for variant := 0; variant < 3; variant++ {
					if !c.Mine() {
						continue
					}
					pad := strings.Repeat(" ", 1<<uint(k)+d)
					line := model.KwPrint + " 1;" + pad + model.KwPrint + " 2;"
					want := "1\n2\n"
					switch variant {
					case 1:
						line = model.KwPrint + " 1;" + pad + model.KwPrint + " ;"
						want = ""
					case 2:
						line = model.KwPrint + " 1;" + pad + "zz;"
						want = "1\n"
					}
					session := line + "\n" + probe + "\n"
					o := h.RunRepl(session, h.Opts{Fuel: int64(3_000_000 + 100*len(session))})
					c.Eval(session, true)
					c.R.States++
					c.R.Transitions++
					base := fw.Replay{Mode: "repl", Program: trunc(session, 300), CLI: true, InStdout: trunc(o.Stdout, 300), InStderr: trunc(o.Stderr, 300), InStatus: o.Status}
					if abnormal(c, o, "repl", trunc(session, 200), base) {
						continue
					}
					if o.Stdout != ">> "+want+">> 2\n>> " || o.Status != 0 || (variant == 0) != (o.Stderr == "") {
						r := base
						r.Sig = fmt.Sprintf("C20|long-line|variant%d", variant)
						r.What = fmt.Sprintf("a line of about 2^%d characters must get its own response and the next line must be answered", k)
						r.Expected = fmt.Sprintf("stdout %q status 0", ">> "+want+">> 2\n>> ")
						r.Observed = fmt.Sprintf("stdout %q status %d stderr %q", trunc(o.Stdout, 100), o.Status, trunc(o.Stderr, 150))
						c.Violate(r)
					}
				}
			}
		}
	}
	// whatever a line does, the session goes on: every built-in on every argument list of length 0 and 1
	// over the operand alphabet (plus emptied and one-element containers), as a line of its own followed
	// by a line of literals and built-ins, which must be answered as in a fresh session
	{
		ops := c02Operands()
		extra := []operand{
			{"emptied-array", func() *model.N { return model.CallN(model.BiRemove, model.Arr(model.Num(1)), model.Num(0)) }},
			{"array-of-nil", func() *model.N { return model.Arr(model.Nil()) }},
			{"array-of-text", func() *model.N { return model.Arr(model.Str("a")) }},
			{"nested-empty", func() *model.N { return model.Arr(model.Arr()) }},
		}
		all := append(append([]operand{}, ops...), extra...)
		probe := model.BiLen + "([1, 2]);"
		for _, name := range model.Builtins {
			if name == model.BiInput || name == model.BiInputLatin {
				continue // reads the next line of the session itself
			}
			var lines []string
			lines = append(lines, model.RenderExpr(model.CallN(name))+";")
			for _, x := range all {
				if x.Name == "AA" || x.Name == "OO" || x.Name == "uf" {
					continue // names of a prelude that a prompt line does not have
				}
				lines = append(lines, model.RenderExpr(model.Parenthesize(model.ExprS(model.CallN(name, x.Mk())), true).A[0])+";")
			}
			for _, ln := range lines {
				if !c.Mine() {
					continue
				}
				session := ln + "\n" + probe + "\n"
				o := h.RunRepl(session, h.Opts{Stdin: "", Fuel: 3_000_000})
				c.Eval(session, true)
				c.R.States++
				c.R.Transitions++
				base := fw.Replay{Mode: "repl", Program: session, CLI: true, InStdout: o.Stdout, InStderr: o.Stderr, InStatus: o.Status}
				if abnormal(c, o, "repl", session, base) {
					continue
				}
				parts, ok := splitPrompts(o.Stdout)
				if !ok || len(parts) != 3 || parts[1] != "2\n" || parts[2] != "" || o.Status != 0 {
					r := base
					r.Sig = "C20|session-ends-or-later-line-altered|after-built-in-call"
					r.What = "after a line that calls a built-in the next line is not answered as in a fresh session"
					r.Expected = "three prompts, the second line answered 2, status 0"
					r.Observed = fmt.Sprintf("stdout %q status %d stderr %q", trunc(o.Stdout, 200), o.Status, trunc(o.Stderr, 200))
					c.Violate(r)
				}
			}
		}
	}
	// containers that hold themselves: a line builds one (an array in itself, an object in itself, an array
	// in an object in the array) and uses it in every operand position of every operator, as each argument of
	// every built-in, as index, receiver, callee, condition, printed and echoed; the probe line that follows
	// must be answered as in a fresh session
	{
		V := model.KwVar
		builds := []string{
			V + " x = [0]; x[0] = x; ",
			V + " x = {k: 0}; x.k = x; ",
			V + " x = [0]; " + V + " o = {a: x}; x[0] = o; ",
		}
		var uses []string
		for _, op := range model.BinOps {
			uses = append(uses, "x "+op+" 1;", "1 "+op+" x;", "x "+op+" x;")
		}
		for _, op := range []string{"-", "!", "~"} {
			uses = append(uses, op+"x;")
		}
		for _, op := range []string{"&&", "||", model.KwAnd, model.KwOr} {
			uses = append(uses, "x "+op+" 1;", "nil "+op+" x;")
		}
		for _, b := range model.Builtins {
			if b == model.BiInput || b == model.BiInputLatin {
				continue
			}
			uses = append(uses, b+"(x);", b+"(x, 0);", b+"(0, x);", b+"([1], x);", b+"({k: 1}, x);")
		}
		uses = append(uses, "x[x];", "[1][x];", "x.k.k;", "x();", model.KwIf+" (x) { 1; }", model.KwPrint+" x;", "x;", model.KwPrint+" \"t\" + x;", "x[0] = 1 / x;", "x.z = -x;")
		probe := model.BiLen + "([1, 2]);"
		for bi, b := range builds {
			for _, u := range uses {
				if !c.Mine() {
					continue
				}
				session := b + u + "\n" + probe + "\n"
				o := h.RunRepl(session, h.Opts{Fuel: 3_000_000})
				c.Eval(session, true)
				c.R.States++
				c.R.Transitions++
				base := fw.Replay{Mode: "repl", Program: session, CLI: true, InStdout: o.Stdout, InStderr: o.Stderr, InStatus: o.Status}
				if abnormal(c, o, "repl", session, base) {
					continue
				}
				parts, ok := splitPrompts(o.Stdout)
				if !ok || len(parts) != 3 || parts[1] != "2\n" || parts[2] != "" || o.Status != 0 {
					r := base
					r.Sig = fmt.Sprintf("C20|session-ends-or-later-line-altered|after-self-containing-container|build%d", bi)
					r.What = "after a line that uses a container holding itself the next line is not answered as in a fresh session"
					r.Expected = "three prompts, the second line answered 2, status 0"
					r.Observed = fmt.Sprintf("stdout %q status %d stderr %q", trunc(o.Stdout, 200), o.Status, trunc(o.Stderr, 200))
					c.Violate(r)
				}
			}
		}
	}
	// whatever characters a line holds, the session goes on: every sequence of up to three items of a
	// lexical alphabet (every printable ASCII character; for length three the characters that begin or
	// end a token class) as a line of its own, followed by the probe line, which must be answered as in a
	// fresh session
	{
		var all []string
		for r := rune(0x20); r <= 0x7e; r++ {
			all = append(all, string(r))
		}
		special := []string{"\"", "\\", "/", "*", "1", ".", "a", " ", "\t", "\r", "#", "(", "{", ";", "=", "&", "-", "\u09e7", "\u0995", "\u09cd", "\u200d"}
		probe := model.BiLen + "([1, 2]);"
		var lines []string
		for _, a := range all {
			lines = append(lines, a)
			for _, b := range all {
				lines = append(lines, a+b)
			}
		}
		for _, a := range special {
			for _, b := range special {
				for _, d := range special {
					lines = append(lines, a+b+d)
				}
			}
		}
		for _, ln := range lines {
			if !c.Mine() {
				continue
			}
			session := ln + "\n" + probe + "\n"
			o := h.RunRepl(session, h.Opts{Fuel: 3_000_000})
			c.Eval(session, true)
			c.R.States++
			c.R.Transitions++
			base := fw.Replay{Mode: "repl", Program: session, CLI: true, InStdout: o.Stdout, InStderr: o.Stderr, InStatus: o.Status}
			if abnormal(c, o, "repl", session, base) {
				continue
			}
			parts, ok := splitPrompts(o.Stdout)
			if !ok || len(parts) != 3 || parts[1] != "2\n" || parts[2] != "" || o.Status != 0 {
				r := base
				r.Sig = "C20|session-ends-or-later-line-altered|after-short-line"
				r.What = "after a line of up to three characters the next line is not answered as in a fresh session"
				r.Expected = "three prompts, the second line answered 2, status 0"
				r.Observed = fmt.Sprintf("stdout %q status %d stderr %q", trunc(o.Stdout, 200), o.Status, trunc(o.Stderr, 200))
				c.Violate(r)
			}
		}
	}
	c.Sample(map[string]interface{}{"session": []string{pool[11], pool[1], pool[0]}, "expected_stdout": ">> >> 3\n>> 3\n>> "})
}

// lineClass names the kind of the line preceding position k (what a response must be independent of).
func lineClass(pool []string, seq []int, k int) string {
	if k == 0 {
		return "start"
	}
	switch i := seq[k-1]; {
	case i >= 6 && i <= 9, i == 19, i >= 32:
		return "static-error"
	case i >= 10 && i <= 13, i == 21, i == 23, i >= 26 && i <= 30:
		return "runtime-error"
	}
	return "valid-line"
}

package checks

import (
	"fmt"
	"os"
	"strings"

	"verif/internal/fw"
	"verif/internal/model"
)

// tokSym is one symbol of the token alphabet: a grammar terminal and the
// text it is rendered with.
type tokSym struct {
	Kind string // grammar terminal (IDENT / RIDENT split)
	Text string
}

func fullAlphabet() []tokSym {
	return []tokSym{
		{"LEFT_PAREN", "("}, {"RIGHT_PAREN", ")"}, {"LEFT_BRACE", "{"}, {"RIGHT_BRACE", "}"}, {"LEFT_BRACKET", "["}, {"RIGHT_BRACKET", "]"},
		{"COMMA", ","}, {"DOT", "."}, {"MINUS", "-"}, {"PLUS", "+"}, {"SEMICOLON", ";"}, {"COLON", ":"}, {"SLASH", "/"}, {"STAR", "*"},
		{"AND", "&"}, {"OR", "|"}, {"XOR", "^"}, {"POWER", "**"}, {"NOT", "~"}, {"MODULO", "%"}, {"BANG", "!"}, {"BANG_EQUAL", "!="},
		{"EQUAL", "="}, {"EQUAL_EQUAL", "=="}, {"GREATER", ">"}, {"GREATER_EQUAL", ">="}, {"LEFT_SHIFT", "<<"}, {"LESS", "<"},
		{"LESS_EQUAL", "<="}, {"RIGHT_SHIFT", ">>"},
		{"IDENT", "a"}, {"RIDENT", model.BiLen}, {"STRING", "\"s\""}, {"NUMBER", "1"},
		{"BREAK", model.KwBreak}, {"CONTINUE", model.KwContinue}, {"LOGICAL_AND", model.KwAnd}, {"LOGICAL_AND", "&&"}, {"ELSE", model.KwElse},
		{"FALSE", model.KwFalse}, {"FUN", model.KwFun}, {"FOR", model.KwFor}, {"IF", model.KwIf}, {"NIL", "nil"},
		{"LOGICAL_OR", model.KwOr}, {"LOGICAL_OR", "||"}, {"PRINT", model.KwPrint}, {"RETURN", model.KwReturn}, {"TRUE", model.KwTrue},
		{"VAR", model.KwVar}, {"WHILE", model.KwWhile},
	}
}

// reducedAlphabet: one operator per ladder level, one literal of each kind,
// every bracket, separator and keyword.
func reducedAlphabet() []tokSym {
	return []tokSym{
		{"LEFT_PAREN", "("}, {"RIGHT_PAREN", ")"}, {"LEFT_BRACE", "{"}, {"RIGHT_BRACE", "}"}, {"LEFT_BRACKET", "["}, {"RIGHT_BRACKET", "]"},
		{"COMMA", ","}, {"DOT", "."}, {"SEMICOLON", ";"}, {"COLON", ":"}, {"EQUAL", "="},
		{"MINUS", "-"}, {"STAR", "*"}, {"POWER", "**"}, {"BANG", "!"}, {"EQUAL_EQUAL", "=="}, {"LESS", "<"}, {"LEFT_SHIFT", "<<"},
		{"AND", "&"}, {"OR", "|"}, {"XOR", "^"}, {"LOGICAL_AND", model.KwAnd}, {"LOGICAL_OR", "||"},
		{"IDENT", "a"}, {"NUMBER", "1"}, {"STRING", "\"s\""}, {"NIL", "nil"},
		{"IF", model.KwIf}, {"ELSE", model.KwElse}, {"WHILE", model.KwWhile}, {"FOR", model.KwFor}, {"FUN", model.KwFun},
		{"VAR", model.KwVar}, {"PRINT", model.KwPrint}, {"RETURN", model.KwReturn}, {"BREAK", model.KwBreak},
	}
}

// exprAlphabet: expression-level symbols only (deeper operator sequences).
func exprAlphabet() []tokSym {
	return []tokSym{
		{"LEFT_PAREN", "("}, {"RIGHT_PAREN", ")"}, {"LEFT_BRACKET", "["}, {"RIGHT_BRACKET", "]"}, {"COMMA", ","}, {"DOT", "."},
		{"SEMICOLON", ";"}, {"EQUAL", "="}, {"MINUS", "-"}, {"STAR", "*"}, {"POWER", "**"}, {"BANG", "!"}, {"LESS", "<"},
		{"LOGICAL_OR", "||"}, {"IDENT", "a"}, {"NUMBER", "1"},
	}
}

// stmtAlphabet: statement-level symbols with a single expression atom, for
// long keyword / bracket / separator sequences.
func stmtAlphabet() []tokSym {
	return []tokSym{
		{"IF", model.KwIf}, {"ELSE", model.KwElse}, {"WHILE", model.KwWhile}, {"FOR", model.KwFor}, {"FUN", model.KwFun}, {"VAR", model.KwVar},
		{"PRINT", model.KwPrint}, {"RETURN", model.KwReturn}, {"BREAK", model.KwBreak},
		{"LEFT_PAREN", "("}, {"RIGHT_PAREN", ")"}, {"LEFT_BRACE", "{"}, {"RIGHT_BRACE", "}"}, {"SEMICOLON", ";"}, {"COMMA", ","}, {"EQUAL", "="},
		{"IDENT", "a"}, {"NUMBER", "1"},
	}
}

var (
	gramG, gramGp *model.Grammar
	gramErr       error
)

func loadGrammars() error {
	if gramG != nil || gramErr != nil {
		return gramErr
	}
	b, err := os.ReadFile("/repo/grammer.txt")
	if err != nil {
		gramErr = err
		return err
	}
	gramG, gramErr = model.BuildGrammar(string(b), false)
	if gramErr != nil {
		return gramErr
	}
	gramGp, gramErr = model.BuildGrammar(string(b), true)
	if gramErr != nil {
		return gramErr
	}
	// the hard-coded ladder must be the documented one
	lad, err := model.LadderFromGrammar(string(b))
	if err != nil {
		gramErr = err
		return err
	}
	for i, ops := range lad {
		for _, op := range ops {
			want := i + 2
			got := model.BinLevel[op]
			if op == "||" || op == model.KwOr {
				got = 2
			}
			if op == "&&" || op == model.KwAnd {
				got = 3
			}
			if got != want {
				gramErr = fmt.Errorf("ladder mismatch: %s is level %d in grammer.txt, %d in the model", op, want, got)
				return gramErr
			}
		}
	}
	return nil
}

// tokCase is what the walker hands to a visitor.
type tokCase struct {
	Syms     []tokSym
	Accepted bool
	Dead     int // index of the first dead token; len(Syms) = viable but incomplete; -1 accepted
}

// renderToks writes the sequence on one line or one token per line (a ধরি
// declaration, from the keyword through its ';', stays on one line); it
// returns the text and the line of every token, plus the EOF line.
func renderToks(syms []tokSym, perLine bool) (string, []int, int) {
	var sb strings.Builder
	lines := make([]int, len(syms))
	line := 1
	inVar := false
	for i, s := range syms {
		if i > 0 {
			if perLine && !inVar {
				sb.WriteByte('\n')
				line++
			} else {
				sb.WriteByte(' ')
			}
		}
		if s.Kind == "VAR" {
			inVar = true
		}
		sb.WriteString(s.Text)
		lines[i] = line
		if s.Kind == "SEMICOLON" {
			inVar = false
		}
	}
	return sb.String(), lines, line
}

// walkTokens explores the tree of token sequences over alpha: from every
// viable prefix every symbol is appended.  visit is called for every viable
// prefix (accepted or incomplete) and for every dead one-token extension.
// Subtrees are distributed over the shards by their first two symbols.
func walkTokens(c *fw.Ctx, alpha []tokSym, maxLen int, visit func(tc tokCase)) (viable, dead, ood int64) {
	return walkTokensExt(c, alpha, maxLen, nil, visit)
}

// walkTokensExt additionally extends every dead one-token extension by each
// symbol of ext (and by that symbol followed by ';'): the text stays dead at
// the same token, so the first diagnostic must not move.
func walkTokensExt(c *fw.Ctx, alpha []tokSym, maxLen int, ext []tokSym, visit func(tc tokCase)) (viable, dead, ood int64) {
	repeatDead := ext != nil && len(ext) == 0 // an empty, non-nil ext selects the repeat / all-symbol extensions
	if err := loadGrammars(); err != nil {
		c.HarnessError("grammar: " + err.Error())
		return
	}
	term := make([]int, len(alpha))
	termP := make([]int, len(alpha))
	for i, s := range alpha {
		term[i] = gramG.TermIndex(s.Kind)
		termP[i] = gramGp.TermIndex(s.Kind)
	}
	e := model.NewEarley(gramG)
	ep := model.NewEarley(gramGp)
	var seq []tokSym
	var idx []int
	var rec func()
	rec = func() {
		d := len(seq)
		mine := true
		if d < 2 {
			mine = c.Shard == 0
		}
		if mine {
			acc := e.Accepts()
			accP := ep.Accepts()
			if acc != accP {
				ood++
				c.Skip("outside the accept/reject domain: trailing comma in an object literal")
			} else {
				viable++
				c.R.States++
				if d > 0 {
					c.R.Transitions++
				}
				tc := tokCase{Syms: append([]tokSym{}, seq...), Accepted: acc, Dead: -1}
				if !acc {
					tc.Dead = d
				}
				visit(tc)
			}
		}
		if d >= maxLen {
			return
		}
		for i, s := range alpha {
			if d == 1 && (idx[0]*len(alpha)+i)%c.NShards != c.Shard {
				continue
			}
			okP := ep.Push(termP[i])
			if e.Push(term[i]) {
				if !okP {
					c.HarnessError("G accepts a prefix G' rejects")
					e.Pop()
					continue
				}
				seq = append(seq, s)
				idx = append(idx, i)
				rec()
				seq = seq[:len(seq)-1]
				idx = idx[:len(idx)-1]
				e.Pop()
				ep.Pop()
				continue
			}
			if okP {
				ep.Pop()
				ood++
				c.Skip("outside the accept/reject domain: trailing comma in an object literal")
				continue
			}
			// dead extension: a leaf
			if d+1 >= 2 || c.Shard == 0 {
				dead++
				c.R.States++
				c.R.Transitions++
				visit(tokCase{Syms: append(append([]tokSym{}, seq...), s), Accepted: false, Dead: d})
				for _, u := range ext {
					c.R.States += 2
					c.R.Transitions += 2
					visit(tokCase{Syms: append(append([]tokSym{}, seq...), s, u), Accepted: false, Dead: d})
					visit(tokCase{Syms: append(append([]tokSym{}, seq...), s, u, tokSym{"SEMICOLON", ";"}), Accepted: false, Dead: d})
				}
				if repeatDead {
					// the offending token once and twice more (error recovery meets an equal token again),
					// and, for short sequences, every symbol of the alphabet after the dead token
					c.R.States += 2
					c.R.Transitions += 2
					visit(tokCase{Syms: append(append([]tokSym{}, seq...), s, s), Accepted: false, Dead: d})
					visit(tokCase{Syms: append(append([]tokSym{}, seq...), s, s, s), Accepted: false, Dead: d})
					if d+1 <= 3 {
						for _, u := range alpha {
							c.R.States++
							c.R.Transitions++
							visit(tokCase{Syms: append(append([]tokSym{}, seq...), s, u), Accepted: false, Dead: d})
						}
					}
				}
			}
		}
	}
	rec()
	return
}

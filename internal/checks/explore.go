package checks

import (
	"verif/internal/fw"
	"verif/internal/h"
)

// exploreChoices is the deviation-bounded stateless search of DESIGN §2.4:
// run(prefix) replays the prefix of answers and answers 0 afterwards; every
// alternative at every later choice point is explored while the number of
// non-default answers stays within bound (bound < 0: unbounded).  visit is
// called once per execution.  It returns the number of executions and the
// largest number of choice points met.
func exploreChoices(c *fw.Ctx, run func(prefix []int) h.Outcome, bound int, visit func(prefix []int, o h.Outcome)) (execs int, maxPoints int) {
	var rec func(prefix []int, dev int)
	rec = func(prefix []int, dev int) {
		o := run(prefix)
		execs++
		if len(o.Points) > maxPoints {
			maxPoints = len(o.Points)
		}
		if o.BadReplay != "" || len(o.Points) < len(prefix) {
			c.HarnessError("schedule replay diverged: " + o.BadReplay)
			return
		}
		visit(prefix, o)
		for i := len(prefix); i < len(o.Points); i++ {
			if bound >= 0 && dev+1 > bound {
				break
			}
			p := o.Points[i]
			for alt := 1; alt < p.N; alt++ {
				if execs&31 == 0 && c.Expired() {
					return
				}
				np := make([]int, i+1)
				for k := 0; k < i; k++ {
					np[k] = o.Points[k].Chosen
				}
				np[i] = alt
				rec(np, dev+1)
			}
		}
	}
	rec(nil, 0)
	return
}

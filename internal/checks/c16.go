package checks

import (
	"fmt"
	"math"
	"sort"
	"strconv"
	"strings"

	"verif/internal/fw"
	"verif/internal/h"
	"verif/internal/model"
)

func init() { Registry["C16"] = C16 }

type producer struct {
	Name  string
	Mk    func() *model.N
	Stdin string // consumed by the producer itself
}

func stringProducers(s string) []producer {
	rs := []rune(s)
	half := len(rs) / 2
	a, b := string(rs[:half]), string(rs[half:])
	ps := []producer{
		{"literal", func() *model.N { return model.Str(s) }, ""},
		{"concat", func() *model.N { return model.Grp(model.Bin("+", model.Str(a), model.Str(b))) }, ""},
		{"property", func() *model.N { return model.Prop(model.Grp(model.Obj([]string{"k"}, []*model.N{model.Str(s)})), "k") }, ""},
		{"assigned-property", func() *model.N { return model.Prop(model.Id("holder"), "k") }, ""},
		{"element", func() *model.N { return model.Idx(model.Arr(model.Str(s)), model.Num(0)) }, ""},
		{"function-result", func() *model.N { return model.CallN("rs") }, ""},
		{"variable", func() *model.N { return model.Id("sv") }, ""},
		{"parameter", func() *model.N { return model.CallN("idf", model.Str(s)) }, ""},
		{"logical-result", func() *model.N { return model.Grp(model.Log(model.KwOr, model.Nil(), model.Str(s))) }, ""},
	}
	if strings.TrimSpace(s) == s {
		ps = append(ps, producer{"input", func() *model.N { return model.CallN(model.BiInput) }, s + "\n"})
	}
	// every split of the text into two parts (either may be empty), each part as a string, and as a
	// number wherever the part is exactly what that number is rendered as
	asNumber := func(t string) (float64, bool) {
		if t == "" || len(t) > 17 {
			return 0, false
		}
		v, err := strconv.ParseFloat(t, 64)
		if err != nil || math.IsInf(v, 0) || math.IsNaN(v) || v < 0 || model.FormatNum(v) != t {
			return 0, false
		}
		return v, true
	}
	if len(rs) <= 12 {
		for cut := 0; cut <= len(rs); cut++ {
			l, r := string(rs[:cut]), string(rs[cut:])
			ps = append(ps, producer{fmt.Sprintf("split@%d:text+text", cut), func() *model.N { return model.Grp(model.Bin("+", model.Str(l), model.Str(r))) }, ""})
			if v, ok := asNumber(l); ok {
				ps = append(ps, producer{fmt.Sprintf("split@%d:number+text", cut), func() *model.N { return model.Grp(model.Bin("+", model.Num(v), model.Str(r))) }, ""})
			}
			if v, ok := asNumber(r); ok {
				ps = append(ps, producer{fmt.Sprintf("split@%d:text+number", cut), func() *model.N { return model.Grp(model.Bin("+", model.Str(l), model.Num(v))) }, ""})
			}
		}
	}
	if s == "12" {
		ps = append(ps, producer{"number-to-text", func() *model.N { return model.Grp(model.Bin("+", model.Str(""), model.Num(12))) }, ""})
	}
	return ps
}

func numberProducers(n float64, keepAll bool) []producer {
	num := model.Num
	ps := []producer{
		{"literal", func() *model.N { return num(n) }, ""},
		{"arithmetic", func() *model.N { return model.Grp(model.Bin("+", num(n-1), num(1))) }, ""},
		{"bitwise-or-zero", func() *model.N { return model.Grp(model.Bin("|", num(n), num(0))) }, ""},
		{"bitwise-and", func() *model.N { return model.Grp(model.Bin("&", model.Grp(model.Bin("|", num(n), num(4))), num(n))) }, ""},
		{"shift", func() *model.N { return model.Grp(model.Bin(">>", model.Grp(model.Bin("<<", num(n), num(2))), num(2))) }, ""},
		{"not-not", func() *model.N { return model.Un("~", model.Un("~", num(n))) }, ""},
		{"round", func() *model.N { return model.CallN(model.BiRound, model.Bin("+", num(n), num(0.2))) }, ""},
		{"abs", func() *model.N {
			if n < 0 {
				return model.Un("-", model.CallN(model.BiAbs, num(n)))
			}
			return model.CallN(model.BiAbs, model.Un("-", num(n)))
		}, ""},
		{"min", func() *model.N { return model.CallN(model.BiMin, num(n), num(n+5)) }, ""},
		{"variable", func() *model.N { return model.Id("nv") }, ""},
		{"element", func() *model.N { return model.Idx(model.Arr(num(n)), num(0)) }, ""},
		{"property", func() *model.N { return model.Prop(model.Id("nholder"), "k") }, ""},
		{"function-result", func() *model.N { return model.CallN("rn") }, ""},
		{"times-one", func() *model.N { return model.Grp(model.Bin("*", num(n), num(1))) }, ""},
		{"power", func() *model.N { return model.Grp(model.Bin("**", num(n), num(1))) }, ""},
		{"modulo", func() *model.N { return model.Grp(model.Bin("%", num(n), num(n+7))) }, ""},
	}
	// every operator application over the boundary alphabet whose (model) value is n
	ps = append(ps, operatorProducers(n, keepAll)...)
	if n <= 5 && n >= 0 {
		var items []*model.N
		for i := 0; i < int(n); i++ {
			items = append(items, num(0))
		}
		ps = append(ps, producer{"len", func() *model.N {
			cp := make([]*model.N, len(items))
			for i := range items {
				cp[i] = items[i].Clone()
			}
			return model.CallN(model.BiLen, model.Arr(cp...))
		}, ""})
	}
	return ps
}

type holeCtx struct {
	Name  string
	Mk    func(hole *model.N) []*model.N
	Stdin string
}

func c16Contexts(isString bool, sameLit func() *model.N) []holeCtx {
	num, id := model.Num, model.Id
	var out []holeCtx
	add := func(name string, mk func(hole *model.N) []*model.N) { out = append(out, holeCtx{name, mk, ""}) }
	pr := func(e *model.N) []*model.N { return []*model.N{model.Print(e)} }
	partners := []struct {
		n string
		f func() *model.N
	}{{"2", func() *model.N { return num(2) }}, {`"x"`, func() *model.N { return model.Str("x") }}, {"same", sameLit},
		{"nil", model.Nil}, {"true", func() *model.N { return model.Bool(true) }}, {"[]", func() *model.N { return model.Arr() }}}
	for _, op := range model.BinOps {
		for _, pt := range partners {
			op, pt := op, pt
			add("hole"+op+pt.n, func(hh *model.N) []*model.N { return pr(model.Bin(op, hh, pt.f())) })
			add(pt.n+op+"hole", func(hh *model.N) []*model.N { return pr(model.Bin(op, pt.f(), hh)) })
		}
	}
	for _, op := range []string{"||", "&&", model.KwOr, model.KwAnd} {
		op := op
		add("hole"+op+"1", func(hh *model.N) []*model.N { return pr(model.Log(op, hh, num(1))) })
		add("nil"+op+"hole", func(hh *model.N) []*model.N { return pr(model.Log(op, model.Nil(), hh)) })
		add("1"+op+"hole", func(hh *model.N) []*model.N { return pr(model.Log(op, num(1), hh)) })
	}
	for _, op := range []string{"-", "!", "~"} {
		op := op
		add("un"+op, func(hh *model.N) []*model.N { return pr(model.Un(op, hh)) })
	}
	// the hole between two operators of an unparenthesised chain: 2 op1 □ op2 5, for every pair of operators
	chainOps := []string{model.KwOr, "&&", "|", "^", "&", "==", "!=", "<", "<=", ">", ">=", "<<", ">>", "+", "-", "*", "/", "%", "**"}
	mkOp := func(op string, l, r *model.N) *model.N {
		if model.BinLevel[op] == 0 {
			return model.Log(op, l, r)
		}
		return model.Bin(op, l, r)
	}
	for _, o1 := range chainOps {
		for _, o2 := range chainOps {
			o1, o2 := o1, o2
			add("chain|"+o1+"|"+o2, func(hh *model.N) []*model.N {
				text := model.KwPrint + " 2 " + o1 + " HOLE " + o2 + " 5;"
				st, err := model.ParseSource(strings.Replace(text, "HOLE", "hOlE", 1))
				if err != nil || len(st) != 1 {
					return pr(mkOp(o2, mkOp(o1, num(2), hh), num(5)))
				}
				var sub func(n *model.N) *model.N
				sub = func(n *model.N) *model.N {
					if n == nil {
						return nil
					}
					if n.K == "id" && n.S == "hOlE" {
						return hh
					}
					for i, k := range n.A {
						n.A[i] = sub(k)
					}
					return n
				}
				return []*model.N{sub(st[0])}
			})
		}
	}
	add("if", func(hh *model.N) []*model.N { return []*model.N{model.If(hh, T("then"), T("else"))} })
	add("while", func(hh *model.N) []*model.N {
		return []*model.N{model.While(hh, model.Block(T("body"), model.Break())), T("after")}
	})
	add("for-cond", func(hh *model.N) []*model.N {
		return []*model.N{model.For(nil, hh, nil, model.Block(T("body"), model.Break())), T("after")}
	})
	add("index", func(hh *model.N) []*model.N { return pr(model.Idx(model.Arr(num(10), num(20), num(30), num(40)), hh)) })
	add("store-index", func(hh *model.N) []*model.N {
		return []*model.N{model.ExprS(model.IAsg(id("arr"), hh, num(1))), model.Print(id("arr"))}
	})
	add("store-value", func(hh *model.N) []*model.N {
		return []*model.N{model.ExprS(model.IAsg(id("arr"), num(0), hh)), model.Print(id("arr"))}
	})
	add("delete-key", func(hh *model.N) []*model.N {
		return []*model.N{model.ExprS(model.CallN(model.BiDelete, id("ob"), hh)), model.Print(id("ob"))}
	})
	add("print", func(hh *model.N) []*model.N { return pr(hh) })
	add("print-array", func(hh *model.N) []*model.N { return pr(model.Arr(hh, hh.Clone())) })
	add("print-literal-prop", func(hh *model.N) []*model.N { return pr(model.Obj([]string{"k"}, []*model.N{hh})) })
	add("print-assigned-prop", func(hh *model.N) []*model.N {
		return []*model.N{model.ExprS(model.PAsg(id("ob"), "z", hh)), model.Print(id("ob"))}
	})
	add("concat-left", func(hh *model.N) []*model.N { return pr(model.Bin("+", model.Str(""), hh)) })
	add("concat-right", func(hh *model.N) []*model.N { return pr(model.Bin("+", hh, model.Str(""))) })
	add("callee", func(hh *model.N) []*model.N { return pr(model.Call(model.Grp(hh))) })
	add("property-of", func(hh *model.N) []*model.N { return pr(model.Prop(model.Grp(hh), "k")) })
	add("index-of", func(hh *model.N) []*model.N { return pr(model.Idx(model.Grp(hh), num(0))) })
	add("equals-self", func(hh *model.N) []*model.N { return pr(model.Bin("==", hh, hh.Clone())) })
	add("append-element", func(hh *model.N) []*model.N { return pr(model.CallN(model.BiAppend, model.Arr(num(1)), hh)) })
	add("remove-index", func(hh *model.N) []*model.N {
		return pr(model.CallN(model.BiRemove, model.Arr(num(1), num(2), num(3), num(4)), hh))
	})
	for _, b := range []string{model.BiAbs, model.BiSqrt, model.BiSin, model.BiCos, model.BiTan, model.BiRound, model.BiLen, model.BiKeys, model.BiValues} {
		b := b
		add("builtin-"+b, func(hh *model.N) []*model.N { return pr(model.CallN(b, hh)) })
	}
	for _, b := range []string{model.BiPow, model.BiMin, model.BiMax} {
		b := b
		add("builtin-"+b+"-1", func(hh *model.N) []*model.N { return pr(model.CallN(b, hh, num(2))) })
		add("builtin-"+b+"-2", func(hh *model.N) []*model.N { return pr(model.CallN(b, num(2), hh)) })
	}
	add("builtin-min-array", func(hh *model.N) []*model.N { return pr(model.CallN(model.BiMin, model.Arr(hh, num(2)))) })
	out = append(out, holeCtx{"input-prompt", func(hh *model.N) []*model.N { return pr(model.CallN(model.BiInput, hh)) }, "typed\n"})
	add("user-function-arg", func(hh *model.N) []*model.N { return pr(model.Bin("+", model.CallN("idf", hh), model.Str("!"))) })
	_ = isString
	return out
}

func C16(c *fw.Ctx) {
	c.R.Rule = "every one-hole context (each operand position of each operator against six partner kinds, logical operators, prefix operators, conditions, index, store, delete key, each argument of each built-in, printed alone / in an array / as a property, concatenation, callee) x every producer of the same string (\"abc\", \"\", \"12\", \" \") or number (0, 3, 10^6): all producers must give the outcome of the literal (stdout, first diagnostic, status); every ordered pair of producers under ==; distinct by program text"
	type valueSet struct {
		label string
		prods []producer
		same  func() *model.N
		pre   func() []*model.N
	}
	var sets []valueSet
	// pass-through wrappers: the value is carried through one more construct that must not change it
	wrappers := []struct {
		name string
		mk   func(e *model.N) *model.N
	}{
		{"group", func(e *model.N) *model.N { return model.Grp(e) }},
		{"literal-property", func(e *model.N) *model.N { return model.Prop(model.Grp(model.Obj([]string{"k"}, []*model.N{e})), "k") }},
		{"literal-element", func(e *model.N) *model.N { return model.Idx(model.Arr(model.Num(9), e), model.Num(1)) }},
		{"argument", func(e *model.N) *model.N { return model.CallN("idf", e) }},
		{"or-result", func(e *model.N) *model.N { return model.Grp(model.Log(model.KwOr, model.Bool(false), e)) }},
		{"and-result", func(e *model.N) *model.N { return model.Grp(model.Log("&&", model.Bool(true), e)) }},
		{"assignment-value", func(e *model.N) *model.N { return model.Grp(model.Asg("tmpw", e)) }},
		{"appended-element", func(e *model.N) *model.N { return model.Idx(model.CallN(model.BiAppend, model.Arr(), e), model.Num(0)) }},
		{"listed-value", func(e *model.N) *model.N {
			return model.Idx(model.CallN(model.BiValues, model.Obj([]string{"k"}, []*model.N{e})), model.Num(0))
		}},
		{"closure-result", func(e *model.N) *model.N { return model.Call(model.CallN("mkc", e)) }},
	}
	wrap := func(base []producer, n int) []producer {
		out := append([]producer{}, base...)
		if n > len(base) {
			n = len(base)
		}
		for _, w := range wrappers {
			for _, p := range base[:n] {
				w, p := w, p
				out = append(out, producer{w.name + "(" + p.Name + ")", func() *model.N { return w.mk(p.Mk()) }, p.Stdin})
			}
		}
		return out
	}
	wrapPre := func() []*model.N {
		return []*model.N{model.Var("tmpw", nil), model.Fun("mkc", []string{"v"}, model.Fun("inner", nil, model.Return(model.Id("v"))), model.Return(model.Id("inner")))}
	}
	strVals := []string{"abc", "", "12", " ", "\u0995\u09DF", "e\u0301x"}
	numVals := []float64{0, 3, 1000000, -1}
	wrapBase := 3
	if !c.Quick() {
		strVals = append(strVals, "0", "true", "nil", "1e3", "a b", "-", "\u09e7\u09e8", strings.Repeat("xy", 60), "k", "abc ")
		numVals = append(numVals, 0.5, -0.5, 1, 64, 2147483648, 9007199254740992, 1e21, 1e-7, 255)
		wrapBase = 1000
	}
	c.Bound("string_values", len(strVals))
	c.Bound("number_values", len(numVals))
	c.Bound("pass_through_wrappers", len(wrappers))
	for _, s := range strVals {
		s := s
		sets = append(sets, valueSet{fmt.Sprintf("string %q", s), wrap(stringProducers(s), wrapBase), func() *model.N { return model.Str(s) }, func() []*model.N {
			return []*model.N{
				wrapPre()[0], wrapPre()[1],
				model.Fun("rs", nil, model.Return(model.Str(s))),
				model.Fun("idf", []string{"x"}, model.Return(model.Id("x"))),
				model.Var("sv", model.Str(s)),
				model.Var("holder", model.Obj(nil, nil)), model.ExprS(model.PAsg(model.Id("holder"), "k", model.Str(s))),
			}
		}})
	}
	for _, n := range numVals {
		n := n
		nb := wrapBase
		if nb > 24 {
			nb = 24
		}
		sets = append(sets, valueSet{fmt.Sprintf("number %v", n), wrap(numberProducers(n, !c.Quick()), nb), func() *model.N { return model.Num(n) }, func() []*model.N {
			return []*model.N{
				wrapPre()[0], wrapPre()[1],
				model.Fun("rn", nil, model.Return(model.Num(n))),
				model.Fun("idf", []string{"x"}, model.Return(model.Id("x"))),
				model.Var("nv", model.Num(n)),
				model.Var("nholder", model.Obj([]string{"k"}, []*model.N{model.Num(n)})),
			}
		}})
	}
	// the number 0 after a -0 has been shown and spliced earlier in the run, and the other way round (what was
	// shown before must not change what a value is shown as now)
	for _, n := range []float64{0} {
		n := n
		sets = append(sets, valueSet{"number 0 after a negative zero was shown", wrap(numberProducers(n, false), 3), func() *model.N { return model.Num(n) }, func() []*model.N {
			return []*model.N{
				wrapPre()[0], wrapPre()[1],
				model.Fun("rn", nil, model.Return(model.Num(n))),
				model.Fun("idf", []string{"x"}, model.Return(model.Id("x"))),
				model.Var("nv", model.Num(n)),
				model.Var("nholder", model.Obj([]string{"k"}, []*model.N{model.Num(n)})),
				model.Print(model.Bin("*", model.Num(0), model.Un("-", model.Num(1)))),
				model.Var("warm", model.Bin("+", model.Str("w"), model.Grp(model.Bin("*", model.Num(0), model.Un("-", model.Num(1)))))),
			}
		}})
	}
	common := func() []*model.N {
		return []*model.N{
			model.Var("arr", model.Arr(model.Num(10), model.Num(20), model.Num(30), model.Num(40))),
			model.Var("ob", model.Obj([]string{"abc", "k"}, []*model.N{model.Num(1), model.Num(2)})),
			model.ExprS(model.PAsg(model.Id("ob"), "v12", model.Num(3))),
		}
	}
	type outc struct {
		stdout, diag string
		status       int
	}
	run := func(prog []*model.N, stdin string) (outc, h.Outcome, string, bool) {
		src := model.Render(parenAll(prog))
		o := h.RunFile(src, h.Opts{Stdin: stdin, StdinMode: 1})
		c.Eval(src+"\x00"+stdin, true)
		if abnormal(c, o, "file", src, fw.Replay{Stdin: stdin, CLI: true}) {
			return outc{}, o, src, false
		}
		return outc{o.Stdout, o.FirstDiag(), o.Status}, o, src, true
	}
	// a producer counts only if the reference model says it yields exactly the value of its set
	for si := range sets {
		vs := &sets[si]
		want := (&model.Machine{}).Run(parenAll([]*model.N{model.ExprS(vs.same())}))
		var kept []producer
		for _, p := range vs.prods {
			var lines []string
			if p.Stdin != "" {
				lines = strings.Split(strings.TrimSuffix(p.Stdin, "\n"), "\n")
			}
			prog := append(vs.pre(), common()...)
			prog = append(prog, model.ExprS(p.Mk()))
			res := (&model.Machine{Stdin: lines}).Run(parenAll(prog))
			if res.Err != nil || res.Unspec != "" || res.Diverged || len(res.Values) == 0 || len(want.Values) != 1 || !sameScalar(res.Values[len(res.Values)-1], want.Values[0]) {
				c.Count("producers_dropped_model_value_differs")
				continue
			}
			kept = append(kept, p)
		}
		vs.prods = kept
	}
	for _, vs := range sets {
		ctxs := c16Contexts(strings.HasPrefix(vs.label, "string"), vs.same)
		c.Bound("contexts", len(ctxs))
		for _, cx := range ctxs {
			if !c.Mine() {
				continue
			}
			var ref outc
			var refSrc string
			for pi, p := range vs.prods {
				prog := append(vs.pre(), common()...)
				prog = append(prog, cx.Mk(p.Mk())...)
				pin := p.Stdin
				if cx.Name == "equals-self" || cx.Name == "print-array" {
					pin += p.Stdin // the hole occurs twice
				}
				got, o, src, ok := run(prog, pin+cx.Stdin)
				if !ok {
					continue
				}
				c.Outcome(got.stdout + got.diag)
				if pi == 0 && cx.Name == "print" && strings.HasPrefix(vs.label, "number") {
					// the one absolute anchor of this differential check: the literal prints as its numeral
					lines := strings.Split(strings.TrimSuffix(got.stdout, "\n"), "\n")
					wantNum := model.FormatNum(vs.same().F)
					if got.status != 0 || lines[len(lines)-1] != wantNum {
						c.Violate(fw.Replay{Sig: "C16|number|literal-shown-as-another-numeral", What: "a number literal is shown as another numeral than its own (" + vs.label + ")", Mode: "file", Program: src, CLI: true,
							Expected: wantNum, Observed: fmt.Sprintf("stdout %q status %d", got.stdout, got.status), InStdout: o.Stdout, InStderr: o.Stderr, InStatus: o.Status})
					}
				}
				if pi == 0 {
					ref, refSrc = got, src
					continue
				}
				if got != ref {
					c.Violate(fw.Replay{Sig: "C16|" + strings.SplitN(vs.label, " ", 2)[0] + "|" + p.Name + "|" + ctxClass(cx.Name), What: "a value behaves differently depending on how it was produced (" + vs.label + ", producer " + p.Name + " vs literal, context " + cx.Name + ")",
						Mode: "file", Program: src, Related: []string{refSrc}, Stdin: pin + cx.Stdin, CLI: true,
						Expected: fmt.Sprintf("as the literal: stdout %q diag %q status %d", ref.stdout, ref.diag, ref.status),
						Observed: fmt.Sprintf("stdout %q diag %q status %d", got.stdout, got.diag, got.status), InStdout: o.Stdout, InStderr: o.Stderr, InStatus: o.Status})
				}
			}
		}
		// == over all ordered pairs of producers
		for _, p := range vs.prods {
			for _, q := range vs.prods {
				if !c.Mine() {
					continue
				}
				if p.Stdin != "" && q.Stdin != "" {
					continue
				}
				prog := append(vs.pre(), common()...)
				prog = append(prog, model.Print(model.Bin("==", p.Mk(), q.Mk())), model.Print(model.Bin("!=", p.Mk(), q.Mk())))
				stdin := p.Stdin + p.Stdin + q.Stdin + q.Stdin
				got, o, src, ok := run(prog, stdin)
				if !ok {
					continue
				}
				if !strings.HasSuffix(got.stdout, "true\nfalse\n") || strings.Count(got.stdout, "true")+strings.Count(got.stdout, "false") != 2 || got.status != 0 {
					c.Violate(fw.Replay{Sig: "C16|equal-across-producers|" + strings.SplitN(vs.label, " ", 2)[0], What: "the same value from two producers must be equal (" + vs.label + ": " + p.Name + " == " + q.Name + ")", Mode: "file", Program: src, Stdin: stdin, CLI: true,
						Expected: "true / false", Observed: fmt.Sprintf("stdout %q diag %q status %d", got.stdout, got.diag, got.status), InStdout: o.Stdout, InStderr: o.Stderr, InStatus: o.Status})
				}
			}
		}
	}
	// numbers with long numerals: the quotients k/d and the roots of k (k up to 40, d over 3, 7, 9, 11, 13),
	// scaled by every power of ten from 10^-3 to 10^5, written as a literal (the shortest numeral that
	// denotes that double) and produced by the arithmetic: the literal shows as its own numeral, and
	// literal == literal-in-the-other-script, literal - literal == 0
	{
		var vs []float64
		for k := 1; k <= 40; k++ {
			for _, d := range []float64{3, 7, 9, 11, 13} {
				vs = append(vs, float64(k)/d)
			}
			vs = append(vs, math.Sqrt(float64(k)))
		}
		seen := map[string]bool{}
		for _, base := range vs {
			for e := -3; e <= 5; e++ {
				v := base * math.Pow(10, float64(e))
				txt := strconv.FormatFloat(v, 'f', -1, 64)
				if seen[txt] || !strings.Contains(txt, ".") || v == math.Trunc(v) {
					continue
				}
				seen[txt] = true
				if !c.Mine() {
					continue
				}
				bn := toScript(txt, 1)
				prog := []*model.N{
					model.Print(model.NumT(txt)),
					model.Print(model.Bin("==", model.NumT(txt), model.NumT(bn))),
					model.Print(model.Arr(model.NumT(bn), model.Un("-", model.NumT(txt)))),
					model.Print(model.Bin("==", model.Bin("-", model.NumT(txt), model.NumT(txt)), model.Num(0))),
				}
				judge(c, prog, judgeOpts{SigPrefix: "long-numerals"})
				c.R.States++
			}
		}
	}
	// one operator node, operands of changing kinds: a function whose body applies one operator to its two
	// parameters is called with every ordered pair of operand pairs over a pool of numbers, number-like texts
	// and other texts (the second call sees a node that has already worked on other kinds); the same with the
	// node in a loop body over two arrays; each result is what the operator gives on those operands alone
	{
		id := model.Id
		pool := []func() *model.N{
			func() *model.N { return model.Num(5) },
			func() *model.N { return model.Num(0.5) },
			func() *model.N { return model.Str(" taka") },
			func() *model.N { return model.Str("3") },
			func() *model.N { return model.Str("\u09e7\u09e8") },
			func() *model.N { return model.Str("") },
		}
		type pr struct{ a, b int }
		var pairs []pr
		for a := range pool {
			for b := range pool {
				pairs = append(pairs, pr{a, b})
			}
		}
		for _, op := range []string{"+", "*", "==", "<"} {
			for _, p1 := range pairs {
				for _, p2 := range pairs {
					if !c.Mine() {
						continue
					}
					prog := []*model.N{
						model.Fun("ap", []string{"a", "b"}, model.Return(model.Bin(op, id("a"), id("b")))),
						model.Print(model.CallN("ap", pool[p1.a](), pool[p1.b]())),
						model.Print(model.CallN("ap", pool[p2.a](), pool[p2.b]())),
						model.Print(model.CallN("ap", pool[p1.a](), pool[p1.b]())),
					}
					judge(c, prog, judgeOpts{SigPrefix: "one-operator-node|" + op, NoKind: true})
					c.R.States++
				}
			}
			// differential (no model): all pairs through the one node in one run, in every rotation of the
			// list and its reverse, against each call in a program of its own
			for rot := range pairs {
				if !c.Mine() {
					continue
				}
				pre := func() []*model.N {
					return []*model.N{model.Fun("ap", []string{"a", "b"}, model.Return(model.Bin(op, id("a"), id("b"))))}
				}
				var exprs []func() *model.N
				for k := range pairs {
					p := pairs[(k+rot)%len(pairs)]
					exprs = append(exprs, func() *model.N { return model.CallN("ap", pool[p.a](), pool[p.b]()) })
				}
				batchVsSingle(c, "one-operator-node|"+op, pre, exprs, "")
				c.R.States++
			}
			if c.Mine() {
				var as, bs []*model.N
				for _, p := range pairs {
					as = append(as, pool[p.a]())
					bs = append(bs, pool[p.b]())
				}
				for rev := 0; rev < 2; rev++ {
					var at func() *model.N
					if rev == 0 {
						at = func() *model.N { return id("i") }
					} else {
						at = func() *model.N { return model.Bin("-", model.Num(float64(len(pairs)-1)), id("i")) }
					}
					prog := []*model.N{
						model.Var("as", model.Arr(as...)), model.Var("bs", model.Arr(bs...)),
						model.For(model.Var("i", model.Num(0)), model.Bin("<", id("i"), model.Num(float64(len(pairs)))), model.Asg("i", model.Bin("+", id("i"), model.Num(1))),
							model.Block(model.Print(model.Bin(op, model.Idx(id("as"), at()), model.Idx(id("bs"), at()))))),
					}
					judge(c, prog, judgeOpts{SigPrefix: "one-operator-node-in-loop|" + op, NoKind: true})
					c.R.States++
				}
			}
		}
	}
	// long texts: the same text of n characters (n around 2^12 and 2^13, ASCII and Bangla) from a literal,
	// from two halves joined by +, from a variable, from a function and from ইনপুট, in eight contexts
	{
		for _, unit := range []string{"x", "\u0995", "7"} {
			for _, n := range []int{4095, 4096, 4097, 8191, 8192, 8193} {
				if !c.Mine() {
					continue
				}
				text := strings.Repeat(unit, n)
				prods := []producer{
					{"literal", func() *model.N { return model.Str(text) }, ""},
					{"halves", func() *model.N {
						return model.Grp(model.Bin("+", model.Str(text[:len(text)/2/len(unit)*len(unit)]), model.Str(text[len(text)/2/len(unit)*len(unit):])))
					}, ""},
					{"variable", func() *model.N { return model.Id("lv") }, ""},
					{"function-result", func() *model.N { return model.CallN("lf") }, ""},
					{"input", func() *model.N { return model.CallN(model.BiInput) }, text + "\n"},
					{"input-latin-name", func() *model.N { return model.CallN(model.BiInputLatin) }, text + "\n"},
				}
				ctxs := map[string]func(hh *model.N) []*model.N{
					"equals-literal": func(hh *model.N) []*model.N { return []*model.N{model.Print(model.Bin("==", hh, model.Str(text)))} },
					"print":          func(hh *model.N) []*model.N { return []*model.N{model.Print(hh)} },
					"in-array":       func(hh *model.N) []*model.N { return []*model.N{model.Print(model.Arr(hh, model.Num(1)))} },
					"concat": func(hh *model.N) []*model.N {
						return []*model.N{model.Print(model.Bin("+", model.Bin("+", model.Str("<"), hh), model.Str(">")))}
					},
					"times-two": func(hh *model.N) []*model.N { return []*model.N{model.Print(model.Bin("*", hh, model.Num(2)))} },
					"condition": func(hh *model.N) []*model.N { return []*model.N{model.If(hh, T("then"), T("else"))} },
					"as-key": func(hh *model.N) []*model.N {
						return []*model.N{model.ExprS(model.CallN(model.BiDelete, model.Id("ob"), hh))}
					},
					"as-index": func(hh *model.N) []*model.N { return []*model.N{model.Print(model.Idx(model.Arr(model.Num(1)), hh))} },
				}
				var names []string
				for k := range ctxs {
					names = append(names, k)
				}
				sort.Strings(names)
				for _, cn := range names {
					var ref outc
					var refSrc string
					for pi, p := range prods {
						prog := []*model.N{model.Var("lv", model.Str(text)), model.Fun("lf", nil, model.Return(model.Str(text))), model.Var("ob", model.Obj([]string{"k"}, []*model.N{model.Num(1)}))}
						prog = append(prog, ctxs[cn](p.Mk())...)
						got, o, src, ok := run(prog, p.Stdin)
						if !ok {
							continue
						}
						if pi == 0 {
							ref, refSrc = got, src
							continue
						}
						if got != ref {
							c.Violate(fw.Replay{Sig: "C16|long-text|" + p.Name + "|" + cn, What: fmt.Sprintf("a text of %d characters behaves differently depending on how it was produced (producer %s vs literal, context %s)", n, p.Name, cn),
								Mode: "file", Program: trunc(src, 400), Related: []string{trunc(refSrc, 200)}, Stdin: trunc(p.Stdin, 100), CLI: false,
								Expected: fmt.Sprintf("as the literal: stdout %q diag %q status %d", trunc(ref.stdout, 80), ref.diag, ref.status),
								Observed: fmt.Sprintf("stdout %q diag %q status %d", trunc(got.stdout, 80), got.diag, got.status), InStdout: trunc(o.Stdout, 200), InStderr: trunc(o.Stderr, 200), InStatus: o.Status})
						}
					}
				}
			}
		}
	}
	c.Sample(map[string]string{"context": "□ * 2", "producers": "\"12\" | \"1\"+\"2\" | ({k:\"12\"}).k | [\"12\"][0] | rs() | ইনপুট() | \"\"+12", "requirement": "identical stdout / first diagnostic / status"})
}

func ctxClass(n string) string {
	switch {
	case strings.HasPrefix(n, "builtin-"), n == "input-prompt", n == "append-element", n == "remove-index", n == "delete-key":
		return "builtin-argument"
	case strings.HasPrefix(n, "chain|"):
		return "operator-chain"
	case strings.HasPrefix(n, "print"):
		return "print"
	case strings.HasPrefix(n, "concat"):
		return "concat"
	case n == "if" || n == "while" || n == "for-cond" || strings.HasPrefix(n, "un"):
		return "condition-or-prefix"
	case strings.Contains(n, "index") || strings.Contains(n, "store"):
		return "index-or-store"
	}
	return "operator"
}

// operatorProducers enumerates x op y and op x over a numeric alphabet and
// keeps the applications whose model value is exactly n: the same number
// coming out of every operator that can produce it.
func operatorProducers(n float64, keepAll bool) []producer {
	alpha := []float64{0, 1, -1, 2, 3, 4, 5, 7, 0.5, 8, 63, 64, 65, 100, 1000, 1000000, 999999, 1000001, 2147483648, 4294967296, 9007199254740992, 1e21}
	lit := func(f float64) *model.N {
		if f < 0 {
			return model.Grp(model.Un("-", model.NumT(bigLit(-f))))
		}
		return model.NumT(bigLit(f))
	}
	var out []producer
	m := &model.Machine{}
	perOp := map[string][]producer{}
	var opOrder []string
	curOp := ""
	defer func() {}()
	try := func(name string, mk func() *model.N) {
		res := m.Run([]*model.N{model.ExprS(mk())})
		if res.Err != nil || res.Unspec != "" || len(res.Values) != 1 {
			return
		}
		if f, ok := res.Values[0].(float64); ok && f == n && !(f == 0 && math.Signbit(f)) {
			if _, seen := perOp[curOp]; !seen {
				opOrder = append(opOrder, curOp)
			}
			perOp[curOp] = append(perOp[curOp], producer{curOp + ":" + name, mk, ""})
		}
	}
	// keep, per operator / built-in, the first three and the last three applications found
	finish := func() []producer {
		for _, op := range opOrder {
			l := perOp[op]
			if len(l) > 6 && !keepAll {
				l = append(append([]producer{}, l[:3]...), l[len(l)-3:]...)
			}
			out = append(out, l...)
		}
		return out
	}
	for _, op := range []string{"+", "-", "*", "/", "%", "**", "&", "|", "^", "<<", ">>"} {
		curOp = op
		for _, a := range alpha {
			for _, b := range alpha {
				for _, sa := range []float64{1, -1} {
					op, a, b, sa := op, a, b, sa
					if a == 0 && sa < 0 {
						continue
					}
					try(fmt.Sprintf("%v%s%v", sa*a, op, b), func() *model.N { return model.Grp(model.Bin(op, lit(sa*a), lit(b))) })
				}
			}
		}
	}
	for _, a := range alpha {
		a := a
		curOp = "prefix"
		try(fmt.Sprintf("~%v", a), func() *model.N { return model.Grp(model.Un("~", lit(a))) })
		try(fmt.Sprintf("~-%v", a), func() *model.N { return model.Grp(model.Un("~", lit(-a))) })
		try(fmt.Sprintf("-%v", a), func() *model.N { return model.Grp(model.Un("-", lit(a))) })
		for _, bi := range []string{model.BiAbs, model.BiRound, model.BiSqrt} {
			bi := bi
			curOp = bi
			try(bi+fmt.Sprint(a), func() *model.N { return model.CallN(bi, lit(a)) })
			try(bi+fmt.Sprint(-a), func() *model.N { return model.CallN(bi, lit(-a)) })
			try(bi+fmt.Sprint(a+0.4), func() *model.N { return model.CallN(bi, lit(a+0.4)) })
		}
		for _, b := range alpha {
			b := b
			for _, bi := range []string{model.BiMin, model.BiMax, model.BiPow} {
				bi := bi
				curOp = bi
				try(fmt.Sprintf("%s(%v,%v)", bi, a, b), func() *model.N { return model.CallN(bi, lit(a), lit(b)) })
			}
		}
	}
	return finish()
}

// sameScalar: identical strings, or identical numbers (the sign of zero included).
func sameScalar(a, b model.Value) bool {
	switch x := a.(type) {
	case string:
		y, ok := b.(string)
		return ok && x == y
	case float64:
		y, ok := b.(float64)
		return ok && x == y && math.Signbit(x) == math.Signbit(y)
	}
	return false
}

package checks

import (
	"fmt"
	"strings"

	"verif/internal/fw"
	"verif/internal/model"
)

// scaleSizes: sizes that cross every power of two from 2^3 to 2^12 (2^k-1, 2^k, 2^k+1), plus the
// smallest ones.
func scaleSizes(maxPow int) []int {
	out := []int{0, 1, 2, 3}
	for k := 3; k <= maxPow; k++ {
		out = append(out, 1<<uint(k)-1, 1<<uint(k), 1<<uint(k)+1)
	}
	return out
}

// scaleArrays: an array grown to n elements by repeated append behaves like a list of n elements
// whatever n is: length, last element, alias, store, remove, sum over a loop.
func scaleArrays(c *fw.Ctx) {
	id, num := model.Id, model.Num
	sizes := scaleSizes(12)
	c.Bound("scale_array_max_elements", sizes[len(sizes)-1])
	for _, n := range sizes {
		if !c.Mine() {
			continue
		}
		fn := float64(n)
		prog := []*model.N{
			model.Var("a", model.Arr()),
			model.For(model.Var("i", num(0)), model.Bin("<", id("i"), num(fn)), model.Asg("i", model.Bin("+", id("i"), num(1))),
				model.Block(model.ExprS(model.Asg("a", model.CallN(model.BiAppend, id("a"), model.Bin("*", id("i"), num(2))))))),
			model.Print(model.CallN(model.BiLen, id("a"))),
			model.Var("b", id("a")),
		}
		if n > 0 {
			prog = append(prog,
				model.Print(model.Idx(id("a"), num(fn-1))),
				model.ExprS(model.IAsg(id("a"), num(fn-1), model.Str("last"))),
				model.Print(model.Idx(id("b"), model.Bin("-", model.CallN(model.BiLen, id("b")), num(1)))),
				model.ExprS(model.IAsg(id("a"), num(fn-1), num(2*(fn-1)))),
				model.Var("r", model.CallN(model.BiRemove, id("a"), num(0))),
				model.Print(model.Bin("+", model.CallN(model.BiLen, id("a")), model.CallN(model.BiLen, id("r")))),
			)
		}
		prog = append(prog,
			model.Var("s", num(0)),
			model.For(model.Var("j", num(0)), model.Bin("<", id("j"), model.CallN(model.BiLen, id("a"))), model.Asg("j", model.Bin("+", id("j"), num(1))),
				model.Block(model.ExprS(model.Asg("s", model.Bin("+", id("s"), model.Idx(id("a"), id("j"))))))),
			model.Print(id("s")),
			model.Print(model.Idx(id("a"), num(fn))), // one past the end: a runtime error
		)
		judge(c, prog, judgeOpts{SigPrefix: "scale|array", Machine: &model.Machine{MaxSteps: 400000}, NoOneLine: true, NoTwice: true})
		c.R.States++
		c.R.Transitions++
	}
	// and printed: every element shows, in order
	for _, n := range scaleSizes(10) {
		if !c.Mine() {
			continue
		}
		var el []*model.N
		for i := 0; i < n; i++ {
			el = append(el, num(float64(i)))
		}
		prog := []*model.N{model.Var("a", model.Arr(el...)), model.Print(id("a")), model.Print(model.CallN(model.BiLen, id("a"))), model.Print(model.CallN(model.BiAppend, id("a"), model.Str("x")))}
		judge(c, prog, judgeOpts{SigPrefix: "scale|array-literal", Machine: &model.Machine{MaxSteps: 400000}, NoTwice: true})
		c.R.States++
		c.R.Transitions++
	}
}

// scaleObjects: an object given n properties one by one lists n keys and n values that pair up, reads
// every one of them back, and loses exactly one on removal, whatever n is.
func scaleObjects(c *fw.Ctx) {
	id, num := model.Id, model.Num
	sizes := scaleSizes(9)
	c.Bound("scale_object_max_properties", sizes[len(sizes)-1])
	for _, n := range sizes {
		for form := 0; form < 2; form++ {
			if !c.Mine() {
				continue
			}
			var prog []*model.N
			if form == 0 {
				prog = append(prog, model.Var("o", model.Obj(nil, nil)))
				for i := 0; i < n; i++ {
					prog = append(prog, model.ExprS(model.PAsg(id("o"), fmt.Sprintf("k%d", i), num(float64(i)))))
				}
			} else {
				var ks []string
				var vs []*model.N
				for i := n - 1; i >= 0; i-- {
					ks = append(ks, fmt.Sprintf("k%d", i))
					vs = append(vs, num(float64(i)))
				}
				prog = append(prog, model.Var("o", model.Obj(ks, vs)))
			}
			prog = append(prog,
				model.Var("ks", model.CallN(model.BiKeys, id("o"))), model.Var("vs", model.CallN(model.BiValues, id("o"))),
				model.Print(model.CallN(model.BiLen, id("ks"))), model.Print(model.CallN(model.BiLen, id("vs"))),
				model.Var("good", num(0)),
				model.For(model.Var("i", num(0)), model.Bin("<", id("i"), model.CallN(model.BiLen, id("ks"))), model.Asg("i", model.Bin("+", id("i"), num(1))),
					model.Block(model.If(model.Bin("==", model.Idx(id("ks"), id("i")), model.Bin("+", model.Str("k"), model.Idx(id("vs"), id("i")))), model.Block(model.ExprS(model.Asg("good", model.Bin("+", id("good"), num(1))))), nil))),
				model.Print(id("good")),
			)
			if n > 0 {
				last := fmt.Sprintf("k%d", n-1)
				prog = append(prog, model.Print(model.Prop(id("o"), last)), model.Print(model.Prop(id("o"), "k0")),
					model.ExprS(model.CallN(model.BiDelete, id("o"), model.Str(last))),
					model.Print(model.CallN(model.BiLen, model.CallN(model.BiKeys, id("o")))),
					model.Print(model.Prop(id("o"), last)))
			}
			judge(c, prog, judgeOpts{SigPrefix: "scale|object", Machine: &model.Machine{MaxSteps: 400000}, NoOneLine: form == 0, NoTwice: true})
			c.R.States++
			c.R.Transitions++
		}
	}
}

// scaleStrings: a text of n characters built by repeated + equals the literal of n characters, prints
// all of them, and a text of n characters as a literal, a property name's value, an array element.
func scaleStrings(c *fw.Ctx) {
	id, num := model.Id, model.Num
	sizes := scaleSizes(13)
	c.Bound("scale_string_max_characters", sizes[len(sizes)-1])
	for _, unit := range []string{"x", "ক", "%"} {
		for _, n := range sizes {
			if !c.Mine() {
				continue
			}
			lit := strings.Repeat(unit, n)
			prog := []*model.N{
				model.Var("s", model.Str("")),
				model.For(model.Var("i", num(0)), model.Bin("<", id("i"), num(float64(n))), model.Asg("i", model.Bin("+", id("i"), num(1))),
					model.Block(model.ExprS(model.Asg("s", model.Bin("+", id("s"), model.Str(unit)))))),
				model.Print(model.Bin("==", id("s"), model.Str(lit))),
				model.Print(id("s")),
				model.Print(model.Arr(model.Str(lit), num(1))),
				model.Print(model.Bin("+", model.Str(lit), num(1))),
			}
			judge(c, prog, judgeOpts{SigPrefix: "scale|string", Machine: &model.Machine{MaxSteps: 400000}, NoTwice: true})
			c.R.States++
			c.R.Transitions++
		}
	}
}

package checks

import (
	"fmt"
	"strings"

	"verif/internal/fw"
	"verif/internal/h"
	"verif/internal/model"
)

func init() { Registry["C07"] = C07 }

// sane: the execution ended normally or with a reported runtime error.
func sane(c *fw.Ctx, src, stdin, sig string, repl bool) {
	var o h.Outcome
	mode := "file"
	if repl {
		o = h.RunRepl(src, h.Opts{Fuel: 60_000_000})
		mode = "repl"
	} else {
		o = h.RunFile(src, h.Opts{Stdin: stdin, StdinMode: 1, Fuel: 60_000_000})
	}
	c.Eval(src, true)
	base := fw.Replay{Mode: mode, Program: src, Stdin: stdin, CLI: true, InStdout: trunc(o.Stdout, 2000), InStderr: trunc(o.Stderr, 2000), InStatus: o.Status}
	if o.Panic != "" {
		r := base
		r.Sig = "C07|panic|" + panicClass(o.Panic) + "|" + sig
		r.What = "host-runtime panic: " + o.Panic
		r.Expected, r.Observed = "normal end or reported runtime error", "panic: "+o.Panic
		c.Violate(r)
		return
	}
	if o.Diverged {
		r := base
		r.Sig = "C07|diverged|" + sig
		r.What = "a terminating program did not terminate within the fuel budget"
		r.Expected, r.Observed = "termination", "fuel exhausted"
		c.Violate(r)
		return
	}
	c.Outcome(fmt.Sprint(o.Status, o.Stderr != ""))
	ok := (o.Status == 0 && (o.Stderr == "" || repl)) || (o.Status == 70 && o.Stderr != "" && !repl)
	if !ok || strings.Contains(o.Stderr, "goroutine ") || strings.Contains(o.Stderr, "panic:") {
		r := base
		r.Sig = "C07|outcome|" + sig
		r.What = "the outcome of a syntactically valid program must be normal (0, empty stderr) or a reported runtime error (70, diagnostic)"
		r.Expected, r.Observed = "status 0 with empty stderr, or status 70 with a diagnostic", fmt.Sprintf("status %d stderr %q", o.Status, trunc(o.Stderr, 200))
		c.Violate(r)
	}
}

func C07(c *fw.Ctx) {
	c.R.Rule = "every indexing / property / call / store / prefix / print / concatenation / equality / built-in form applied to every value of the operand alphabet (all kinds, boundary magnitudes) with every index magnitude; every binary operator on every ordered pair; self-containing arrays and objects printed, compared, concatenated, listed; recursion and literal nesting to 10^2..10^4; long loops and large values; the same forms as REPL lines; outcome must be normal or a reported runtime error (no panic, fatal error, status 2); non-trivial = every case; distinct by text"
	ops := c02Operands()
	num := model.Num
	inf := func() *model.N { return model.Grp(model.Bin("**", num(10), num(400))) }
	idxs := []pval{
		{"0", func() *model.N { return num(0) }}, {"-1", func() *model.N { return model.Un("-", num(1)) }}, {"0.5", func() *model.N { return num(0.5) }},
		{"2^31", func() *model.N { return num(2147483648) }}, {"2^63", func() *model.N { return num(9223372036854775808) }}, {"-2^63", func() *model.N { return model.Un("-", num(9223372036854775808)) }},
		{"1e308", func() *model.N { return model.NumT(bigLit(1e308)) }}, {"+Inf", inf}, {"-Inf", func() *model.N { return model.Un("-", inf()) }},
		{"NaN", func() *model.N { return model.Grp(model.Bin("-", inf(), inf())) }}, {`"0"`, func() *model.N { return model.Str("0") }}, {"nil", model.Nil},
		{"[0]", func() *model.N { return model.Arr(num(0)) }},
	}
	pre := func() []*model.N { return c02Prelude() }
	forms := []struct {
		name string
		mk   func(x, i func() *model.N) []*model.N
	}{
		{"x[i]", func(x, i func() *model.N) []*model.N { return []*model.N{model.Print(model.Idx(model.Grp(x()), i()))} }},
		{"x[i]=1", func(x, i func() *model.N) []*model.N {
			return []*model.N{model.Var("t", x()), model.ExprS(model.IAsg(model.Id("t"), i(), num(1))), model.Print(model.Id("t"))}
		}},
		{"[1,2][x]", func(x, i func() *model.N) []*model.N {
			return []*model.N{model.Print(model.Idx(model.Arr(num(1), num(2)), x()))}
		}},
		{"x.k", func(x, i func() *model.N) []*model.N { return []*model.N{model.Print(model.Prop(model.Grp(x()), "k"))} }},
		{"x.k=i", func(x, i func() *model.N) []*model.N {
			return []*model.N{model.Var("t", x()), model.ExprS(model.PAsg(model.Id("t"), "k", i())), model.Print(model.Id("t"))}
		}},
		{"x()", func(x, i func() *model.N) []*model.N { return []*model.N{model.Print(model.Call(model.Grp(x())))} }},
		{"x(i)", func(x, i func() *model.N) []*model.N { return []*model.N{model.Print(model.Call(model.Grp(x()), i()))} }},
		{"x(i,i)", func(x, i func() *model.N) []*model.N {
			return []*model.N{model.Print(model.Call(model.Grp(x()), i(), i()))}
		}},
		{"print", func(x, i func() *model.N) []*model.N {
			return []*model.N{model.Print(x()), model.Print(model.Arr(x(), i())), model.Print(model.Obj([]string{"k"}, []*model.N{x()}))}
		}},
		{"concat", func(x, i func() *model.N) []*model.N {
			return []*model.N{model.Print(model.Bin("+", model.Str("s"), x()))}
		}},
		{"concat-left", func(x, i func() *model.N) []*model.N {
			return []*model.N{model.Print(model.Bin("+", x(), model.Str("s")))}
		}},
		{"len", func(x, i func() *model.N) []*model.N { return []*model.N{model.Print(model.CallN(model.BiLen, x()))} }},
		{"append", func(x, i func() *model.N) []*model.N {
			return []*model.N{model.Print(model.CallN(model.BiAppend, x(), i()))}
		}},
		{"remove", func(x, i func() *model.N) []*model.N {
			return []*model.N{model.Print(model.CallN(model.BiRemove, x(), i()))}
		}},
		{"remove-from", func(x, i func() *model.N) []*model.N {
			return []*model.N{model.Print(model.CallN(model.BiRemove, model.Arr(num(1), num(2)), x()))}
		}},
		{"delete", func(x, i func() *model.N) []*model.N {
			return []*model.N{model.Print(model.CallN(model.BiDelete, x(), i()))}
		}},
		{"keys", func(x, i func() *model.N) []*model.N {
			return []*model.N{model.Print(model.CallN(model.BiKeys, x())), model.Print(model.CallN(model.BiValues, x()))}
		}},
		{"min", func(x, i func() *model.N) []*model.N {
			return []*model.N{model.Print(model.CallN(model.BiMin, x(), i())), model.Print(model.CallN(model.BiMax, model.Arr(x(), i())))}
		}},
		{"math", func(x, i func() *model.N) []*model.N {
			return []*model.N{model.Print(model.CallN(model.BiRound, x())), model.Print(model.CallN(model.BiPow, x(), i())), model.Print(model.CallN(model.BiSqrt, x()))}
		}},
		{"input-prompt", func(x, i func() *model.N) []*model.N { return []*model.N{model.Print(model.CallN(model.BiInput, x()))} }},
		{"conditions", func(x, i func() *model.N) []*model.N {
			return []*model.N{model.If(x(), T("t"), T("e")), model.While(x(), model.Block(model.Break())), model.Print(model.Log(model.KwOr, x(), i())), model.Print(model.Log("&&", x(), i()))}
		}},
		{"shift-by", func(x, i func() *model.N) []*model.N {
			return []*model.N{model.Print(model.Bin("<<", num(1), x())), model.Print(model.Bin(">>", x(), i()))}
		}},
	}
	for _, f := range forms {
		for _, x := range ops {
			for _, i := range idxs {
				if !c.Mine() {
					continue
				}
				prog := append(pre(), f.mk(x.Mk, i.Mk)...)
				sane(c, model.Render(parenAll(prog)), "typed\n", "form|"+f.name+"|"+kindLabel(x.Name), false)
			}
		}
	}
	// every operator on every ordered pair (outcome only; values are C02's business)
	for _, op := range model.BinOps {
		for _, x := range ops {
			for _, y := range ops {
				if !c.Mine() {
					continue
				}
				prog := append(pre(), model.Print(model.Bin(op, x.Mk(), y.Mk())))
				sane(c, model.Render(parenAll(prog)), "", "binary|"+op, false)
			}
		}
	}
	for _, op := range []string{"-", "!", "~"} {
		for _, x := range ops {
			if !c.Mine() {
				continue
			}
			sane(c, model.Render(parenAll(append(pre(), model.Print(model.Un(op, x.Mk()))))), "", "unary|"+op, false)
		}
	}
	// self-containing values
	id := model.Id
	cyc := [][]*model.N{
		{model.Var("a", model.Arr(num(1), num(2))), model.ExprS(model.IAsg(id("a"), num(0), id("a")))},
		{model.Var("a", model.Obj([]string{"p"}, []*model.N{num(1)})), model.ExprS(model.PAsg(id("a"), "self", id("a")))},
		{model.Var("a", model.Arr(num(1))), model.Var("b", model.Arr(id("a"))), model.ExprS(model.IAsg(id("a"), num(0), id("b")))},
		{model.Var("a", model.Obj(nil, nil)), model.Var("b", model.Arr(id("a"))), model.ExprS(model.PAsg(id("a"), "k", id("b")))},
		{model.Var("a", model.Arr(num(1), num(2))), model.ExprS(model.IAsg(id("a"), num(1), model.Arr(id("a"), id("a"))))},
	}
	uses := []func() []*model.N{
		func() []*model.N { return []*model.N{model.Print(id("a"))} },
		func() []*model.N { return []*model.N{model.Print(model.Bin("==", id("a"), id("a")))} },
		func() []*model.N { return []*model.N{model.Print(model.Bin("+", model.Str("s"), id("a")))} },
		func() []*model.N { return []*model.N{model.Print(model.CallN(model.BiLen, id("a")))} },
		func() []*model.N { return []*model.N{model.Print(model.CallN(model.BiAppend, id("a"), id("a")))} },
		func() []*model.N {
			return []*model.N{model.Print(model.CallN(model.BiKeys, id("a"))), model.Print(model.CallN(model.BiValues, id("a")))}
		},
		func() []*model.N {
			return []*model.N{model.Print(model.Arr(id("a"), model.Obj([]string{"k"}, []*model.N{id("a")})))}
		},
		func() []*model.N {
			return []*model.N{model.If(id("a"), T("t"), nil), model.Print(model.Un("!", id("a")))}
		},
		func() []*model.N { return []*model.N{model.Print(model.CallN(model.BiMin, id("a")))} },
		func() []*model.N { return []*model.N{model.Print(model.CallN(model.BiRemove, id("a"), num(0)))} },
	}
	for ci, cy := range cyc {
		for ui, u := range uses {
			if !c.Mine() {
				continue
			}
			var prog []*model.N
			for _, s := range cy {
				prog = append(prog, s.Clone())
			}
			prog = append(prog, u()...)
			sane(c, model.Render(parenAll(prog)), "", fmt.Sprintf("cyclic|%d|%d", ci, ui), false)
		}
	}
	// every heap graph of two containers with two slots each (slot: scalar, container 1, container 2),
	// each container an array or an object: all patterns of self-reference, mutual reference and sharing
	slotVals := []string{"1", "g1", "g2"}
	for kinds := 0; kinds < 4; kinds++ {
		for g := 0; g < 81; g++ {
			if !c.Mine() {
				continue
			}
			mkC := func(name string, isObj bool) *model.N {
				if isObj {
					return model.Var(name, model.Obj([]string{"p", "q"}, []*model.N{num(0), num(0)}))
				}
				return model.Var(name, model.Arr(num(0), num(0)))
			}
			store := func(name string, isObj bool, slot int, v *model.N) *model.N {
				if isObj {
					return model.ExprS(model.PAsg(id(name), []string{"p", "q"}[slot], v))
				}
				return model.ExprS(model.IAsg(id(name), num(float64(slot)), v))
			}
			o1, o2 := kinds&1 != 0, kinds&2 != 0
			prog := []*model.N{mkC("g1", o1), mkC("g2", o2)}
			gg := g
			for slot := 0; slot < 4; slot++ {
				sv := slotVals[gg%3]
				gg /= 3
				var v *model.N
				if sv == "1" {
					v = num(1)
				} else {
					v = id(sv)
				}
				if slot < 2 {
					prog = append(prog, store("g1", o1, slot, v))
				} else {
					prog = append(prog, store("g2", o2, slot-2, v))
				}
			}
			prog = append(prog, model.Print(id("g1")), model.Print(id("g2")), model.Print(model.Arr(id("g1"), id("g2"), id("g1"))),
				model.Print(model.Bin("+", model.Str("s"), id("g1"))), model.Print(model.Bin("==", id("g1"), id("g2"))), model.Print(model.Bin("==", id("g1"), id("g1"))),
				model.Print(model.Obj([]string{"k", "m"}, []*model.N{id("g2"), id("g2")})), T("done"))
			sane(c, model.Render(parenAll(prog)), "", fmt.Sprintf("heap-graph|%d", kinds), false)
		}
	}
	// every built-in on every argument list of length 0, 1 and 2 over the operand alphabet (outcome only;
	// the values are C17's business), plus emptied and one-element containers made at run time
	{
		extra := []operand{
			{"emptied-array", func() *model.N { return model.CallN(model.BiRemove, model.Arr(model.Num(1)), model.Num(0)) }},
			{"array-of-nil", func() *model.N { return model.Arr(model.Nil()) }},
			{"array-of-arrays", func() *model.N { return model.Arr(model.Arr(), model.Arr()) }},
			{"array-of-text", func() *model.N { return model.Arr(model.Str("a"), model.Str("")) }},
			{"array-with-NaN", func() *model.N { return model.Arr(model.Num(1), model.Grp(model.Bin("-", inf(), inf()))) }},
			{"array-of-object", func() *model.N { return model.Arr(model.Obj(nil, nil)) }},
		}
		all := append(append([]operand{}, ops...), extra...)
		c.Bound("builtin_argument_alphabet", len(all))
		for _, name := range model.Builtins {
			if c.Mine() {
				sane(c, model.Render(parenAll(append(c02Prelude(), model.Print(model.CallN(name))))), "line\n", "builtin-arguments|"+name+"|0", false)
			}
			for _, x := range all {
				if c.Mine() {
					sane(c, model.Render(parenAll(append(c02Prelude(), model.Print(model.CallN(name, x.Mk()))))), "line\n", "builtin-arguments|"+name+"|1", false)
				}
				for _, y := range all {
					if c.Mine() {
						sane(c, model.Render(parenAll(append(c02Prelude(), model.Print(model.CallN(name, x.Mk(), y.Mk()))))), "line\n", "builtin-arguments|"+name+"|2", false)
					}
				}
			}
		}
	}
	// function values that outlive the scopes they were created in: a function declared inside an inner
	// construct nested in an outer one (each one of block / if / for / while / function body) escapes through
	// an outer variable, an outer array or a return value and is called after both have ended -- at once,
	// after other scopes have come and gone, from inside a new scope, twice
	{
		id, num := model.Id, model.Num
		kinds := []string{"block", "if", "for", "while", "function"}
		wrapK := func(k string, tag string, body []*model.N) []*model.N {
			switch k {
			case "block":
				return []*model.N{model.Block(body...)}
			case "if":
				return []*model.N{model.If(model.Bool(true), model.Block(body...), nil)}
			case "for":
				return []*model.N{model.For(model.Var("i"+tag, num(0)), model.Bin("<", id("i"+tag), num(2)), model.Asg("i"+tag, model.Bin("+", id("i"+tag), num(1))), model.Block(body...))}
			case "while":
				return []*model.N{model.Var("w"+tag, num(0)), model.While(model.Bin("<", id("w"+tag), num(2)), model.Block(append([]*model.N{model.ExprS(model.Asg("w"+tag, model.Bin("+", id("w"+tag), num(1))))}, body...)...))}
			}
			return []*model.N{model.Fun("fn"+tag, []string{"p" + tag}, body...), model.ExprS(model.CallN("fn"+tag, num(3)))}
		}
		for _, outer := range kinds {
			for _, inner := range kinds {
				for esc := 0; esc < 2; esc++ {
					for after := 0; after < 4; after++ {
						if !c.Mine() {
							continue
						}
						store := model.ExprS(model.Asg("keep", id("made")))
						if esc == 1 {
							store = model.ExprS(model.Asg("kept", model.CallN(model.BiAppend, id("kept"), id("made"))))
						}
						innerBody := []*model.N{model.Var("loc", num(10)),
							model.Fun("made", nil, model.ExprS(model.Asg("loc", model.Bin("+", id("loc"), num(1)))), model.Return(model.Bin("+", id("loc"), id("base")))), store}
						outerBody := append([]*model.N{model.Var("base", num(100))}, wrapK(inner, "b", innerBody)...)
						prog := []*model.N{model.Var("keep", model.Nil()), model.Var("kept", model.Arr())}
						prog = append(prog, wrapK(outer, "a", outerBody)...)
						use := func() *model.N {
							if esc == 1 {
								return model.Print(model.Call(model.Idx(id("kept"), num(0))))
							}
							return model.Print(model.CallN("keep"))
						}
						switch after {
						case 0:
							prog = append(prog, use())
						case 1:
							prog = append(prog, model.Block(model.Var("x1", num(1)), model.Block(model.Var("x2", num(2)))), model.Fun("other", []string{"q"}, model.Return(id("q"))), model.ExprS(model.CallN("other", num(1))), use())
						case 2:
							prog = append(prog, model.For(model.Var("z", num(0)), model.Bin("<", id("z"), num(2)), model.Asg("z", model.Bin("+", id("z"), num(1))), model.Block(model.Block(use()))))
						case 3:
							prog = append(prog, use(), use(), model.Fun("again", nil, model.Block(use())), model.ExprS(model.CallN("again")))
						}
						sane(c, model.Render(parenAll(prog)), "", "escaping-function|"+outer+"|"+inner, false)
					}
				}
			}
		}
	}
	// every list-like construct of the grammar with n items, n over every 2^k-1, 2^k, 2^k+1 up to 2^11 and
	// 250..260: arguments of each variadic built-in, of a fixed-arity built-in and of a user function (too
	// many: a reported error), parameters, elements of an array literal, properties of an object literal,
	// declared names of one declaration, operands of one chain, statements of one block, nested groupings
	{
		P, V, F, R := model.KwPrint, model.KwVar, model.KwFun, model.KwReturn
		ns := scaleSizes(11)
		for n := 250; n <= 260; n++ {
			ns = append(ns, n)
		}
		for _, n := range ns {
			if n < 1 || !c.Mine() {
				continue
			}
			nums := make([]string, n)
			names := make([]string, n)
			props := make([]string, n)
			decls := make([]string, n)
			for i := range nums {
				nums[i] = fmt.Sprint(i + 1)
				names[i] = fmt.Sprintf("q%d", i)
				props[i] = fmt.Sprintf("q%d: %d", i, i)
				decls[i] = fmt.Sprintf("q%d = %d", i, i)
			}
			list := strings.Join(nums, ", ")
			forms := []string{
				P + " " + model.BiMax + "(" + list + ");",
				P + " " + model.BiMin + "(" + list + ");",
				P + " " + model.BiLen + "(" + model.BiAppend + "([], " + list + "));",
				P + " " + model.BiAbs + "(" + list + ");",
				P + " " + model.BiPow + "(" + list + ");",
				P + " " + model.BiLen + "(" + list + ");",
				P + " " + model.BiKeys + "(" + list + ");",
				P + " " + model.BiInput + "(" + list + ");",
				P + " " + model.BiClock + "(" + list + ");",
				F + " u(a) { " + R + " a; }\n" + P + " u(" + list + ");",
				P + " " + model.BiLen + "([" + list + "]);",
				P + " [" + list + "][" + fmt.Sprint(n-1) + "];",
				V + " o = {" + strings.Join(props, ", ") + "};\n" + P + " " + model.BiLen + "(" + model.BiKeys + "(o));",
				P + " " + strings.Join(nums, " + ") + ";",
				P + " " + strings.Join(nums, " < ") + ";",
				P + " " + strings.Join(nums, " "+model.KwAnd+" ") + ";",
				"{ " + strings.Repeat(P+" 1; ", n) + "}",
				P + " " + strings.Repeat("(", n) + "1" + strings.Repeat(")", n) + ";",
				P + " " + strings.Repeat("-", n) + "1;",
				P + " " + strings.Repeat("!", n) + "1;",
			}
			if n <= 255 {
				forms = append(forms, F+" w("+strings.Join(names, ", ")+") { "+R+" q0; }\n"+P+" w("+list+");", F+" w2("+strings.Join(names, ", ")+") { "+R+" q0; }\n"+P+" w2(1);")
			}
			forms = append(forms, V+" "+strings.Join(decls, ", ")+";\n"+P+" q0;")
			for fi, f := range forms {
				sane(c, P+" \"first\";\n"+f+"\n"+P+" \"last\";\n", "l1\n", fmt.Sprintf("n-items|form%d", fi), false)
			}
		}
	}
	// a runtime error on, or after, a very long line (a string literal, a comment, an array literal of
	// every length 2^k-1, 2^k, 2^k+1 for k = 12..17), preceded by an ordinary line
	{
		P, V := model.KwPrint, model.KwVar
		for k := 12; k <= 17; k++ {
			for d := -1; d <= 1; d++ {
				n := 1<<uint(k) + d
				longs := []string{
					V + " s = \"" + strings.Repeat("x", n) + "\";",
					V + " s = 1; //" + strings.Repeat("c", n),
					V + " s = [" + strings.Repeat("1, ", n/3) + "1];",
					V + " s = \"" + strings.Repeat("\u0995", n/3) + "\"; " + P + " 1 / 0;",
				}
				for li, long := range longs {
					for _, fault := range []string{P + " 1 / 0;", P + " [1][5];", "zz;", P + " s.k;"} {
						if !c.Mine() {
							continue
						}
						sane(c, P+" \"first\";\n"+long+"\n"+fault+"\n"+P+" \"never\";\n", "", fmt.Sprintf("fault-after-long-line|form%d", li), false)
					}
				}
			}
		}
	}
	// forms the grammar derives although a careful author would not write them: repeated property names
	// in a literal (every arrangement of up to four entries over two names), repeated parameter names, a
	// parameter named like its function, a function declared twice, a variable named like a function --
	// at the top level, inside a function, as a call argument, as a prompt line
	{
		var lits []string
		names := []string{"a", "b"}
		for n := 2; n <= 4; n++ {
			for code := 0; code < 1<<uint(n); code++ {
				var parts []string
				for i := 0; i < n; i++ {
					parts = append(parts, fmt.Sprintf("%s: %d", names[(code>>uint(i))&1], i+1))
				}
				lits = append(lits, "{"+strings.Join(parts, ", ")+"}")
			}
		}
		lits = append(lits, "{a: {a: 1, a: 2}, a: 3}", "{a: [1, {b: 1, b: 2}], b: 2, a: nil}")
		P, V, F, R := model.KwPrint, model.KwVar, model.KwFun, model.KwReturn
		for _, l := range lits {
			if !c.Mine() {
				continue
			}
			sane(c, P+" "+l+";\n"+V+" o = "+l+";\n"+P+" o.a;\n"+P+" "+model.BiKeys+"(o);\n"+P+" "+model.BiValues+"(o);\n", "", "repeated-property-names|top", false)
			sane(c, F+" mk() { "+R+" "+l+"; }\n"+P+" mk();\n"+P+" mk().a;\n", "", "repeated-property-names|function", false)
			sane(c, P+" "+model.BiLen+"("+model.BiKeys+"("+l+"));\n", "", "repeated-property-names|argument", false)
			sane(c, l+";\n"+l+".a;\n", "", "repeated-property-names|prompt", true)
		}
		for _, src := range []string{
			F + " f(a, a) { " + R + " a; }\n" + P + " f(1, 2);\n",
			F + " f(a, b, a) { " + R + " a + b; }\n" + P + " f(1, 2, 3);\n",
			F + " f(f) { " + R + " f; }\n" + P + " f(1);\n" + P + " f(f);\n",
			F + " f(f, f) { " + R + " f; }\n" + P + " f(1, 2);\n",
			F + " g() { " + R + " 1; }\n" + F + " g() { " + R + " 2; }\n" + P + " g();\n",
			F + " g() { " + R + " 1; }\n" + V + " g = 5;\n" + P + " g;\n",
			V + " g = 5;\n" + F + " g() { " + R + " 1; }\n" + P + " g();\n",
			F + " g() { " + F + " g() { " + R + " 1; } " + R + " g; }\n" + P + " g()();\n",
		} {
			if c.Mine() {
				sane(c, src, "", "unusual-declarations", false)
			}
		}
	}
	// names and expressions quoted by diagnostics: every fault form that mentions a name or prints an
	// expression, with names of every length 1..70 and 100/200/300 over three alphabets (ASCII, Bangla,
	// Bangla with combining marks) and receiver chains of 1..8 links
	{
		alphabets := []struct {
			tag   string
			units []string
		}{{"ascii", []string{"a", "b", "c", "d", "e"}}, {"bangla", []string{"\u0995", "\u0996", "\u0997", "\u0998", "\u099a"}}, {"bangla-marks", []string{"\u0995\u09be", "\u0995\u09bf", "\u0997\u09c1", "\u09a8\u09cd\u09a4", "\u09b0\u09c7"}}}
		lengths := []int{}
		for l := 1; l <= 70; l++ {
			lengths = append(lengths, l)
		}
		lengths = append(lengths, 100, 200, 300)
		mkName := func(units []string, l int) string {
			var sb strings.Builder
			for i := 0; i < l; i++ {
				sb.WriteString(units[i%len(units)])
			}
			return sb.String()
		}
		faults := []struct {
			tag string
			src func(n string) string
		}{
			{"undefined-read", func(n string) string { return model.KwPrint + " " + n + ";\n" }},
			{"undefined-assign", func(n string) string { return n + " = 1;\n" }},
			{"undefined-call", func(n string) string { return n + "(1);\n" }},
			{"redeclare", func(n string) string { return model.KwVar + " " + n + " = 1;\n" + model.KwVar + " " + n + " = 2;\n" }},
			{"missing-property", func(n string) string {
				return model.KwVar + " " + n + " = {k: 1};\n" + model.KwPrint + " " + n + ".zz;\n"
			}},
			{"missing-property-named", func(n string) string { return model.KwVar + " o = {k: 1};\n" + model.KwPrint + " o." + n + ";\n" }},
			{"missing-property-assign-chain", func(n string) string { return model.KwVar + " o = {k: 1};\no." + n + ".k = 2;\n" }},
			{"property-of-number", func(n string) string { return model.KwVar + " " + n + " = 5;\n" + model.KwPrint + " " + n + ".k;\n" }},
			{"call-number", func(n string) string { return model.KwVar + " " + n + " = 5;\n" + n + "();\n" }},
			{"index-number", func(n string) string { return model.KwVar + " " + n + " = 5;\n" + model.KwPrint + " " + n + "[0];\n" }},
			{"index-out-of-range", func(n string) string { return model.KwVar + " " + n + " = [1];\n" + model.KwPrint + " " + n + "[7];\n" }},
			{"arity", func(n string) string { return model.KwFun + " " + n + "(p) {}\n" + n + "();\n" }},
			{"parameter-arity", func(n string) string { return model.KwFun + " f(" + n + ") {}\nf(1, 2);\n" }},
			{"operand", func(n string) string { return model.KwVar + " " + n + " = \"s\";\n" + model.KwPrint + " -" + n + ";\n" }},
			{"delete-missing", func(n string) string {
				return model.KwVar + " o = {k: 1};\n" + model.BiDelete + "(o, \"" + n + "\");\n"
			}},
			{"string-in-message", func(n string) string { return model.KwPrint + " \"" + n + "\" - 1;\n" }},
		}
		for _, al := range alphabets {
			for _, l := range lengths {
				for _, f := range faults {
					if !c.Mine() {
						continue
					}
					sane(c, f.src(mkName(al.units, l)), "", "quoted-name|"+f.tag+"|"+al.tag, false)
				}
			}
			// receiver chains: o.n.n.n....zz with the last link missing
			for links := 1; links <= 8; links++ {
				for _, l := range []int{1, 2, 3, 5, 8, 13, 21} {
					if !c.Mine() {
						continue
					}
					n := mkName(al.units, l)
					lit := "1"
					for i := 0; i < links; i++ {
						lit = "{" + n + ": " + lit + "}"
					}
					chain := "o" + strings.Repeat("."+n, links)
					sane(c, model.KwVar+" o = "+lit+";\n"+model.KwPrint+" "+chain+";\n"+model.KwPrint+" "+chain[:len(chain)-len(n)-1]+".zz;\n", "", "quoted-chain|"+al.tag, false)
					sane(c, model.KwVar+" o = "+lit+";\n"+model.KwPrint+" "+chain+".zz;\n", "", "quoted-chain-number|"+al.tag, false)
					sane(c, model.KwVar+" o = ["+lit+"];\n"+model.KwPrint+" o[0]"+strings.Repeat("."+n, links-1)+".zz;\n", "", "quoted-chain-index|"+al.tag, false)
				}
			}
		}
	}
	// depth and size
	depths := []int{100, 1000, 10000}
	kw := func(s string) string { return s }
	rep := strings.Repeat
	for _, d := range depths {
		if !c.Mine() {
			continue
		}
		D := fmt.Sprint(d)
		progs := map[string]string{
			"recursion":       model.KwFun + " f(n) { " + model.KwIf + " (n <= 0) { " + model.KwReturn + " 0; } " + model.KwReturn + " 1 + f(n - 1); }\n" + model.KwPrint + " f(" + D + ");",
			"mutual":          model.KwFun + " ev(n) { " + model.KwIf + " (n == 0) " + model.KwReturn + " " + model.KwTrue + "; " + model.KwReturn + " od(n - 1); }\n" + model.KwFun + " od(n) { " + model.KwIf + " (n == 0) " + model.KwReturn + " " + model.KwFalse + "; " + model.KwReturn + " ev(n - 1); }\n" + model.KwPrint + " ev(" + D + ");",
			"nested-array":    model.KwVar + " a = " + rep("[", d) + rep("]", d) + ";\n" + model.KwPrint + " " + model.BiLen + "(a);",
			"nested-print":    model.KwVar + " a = [];\n" + model.KwFor + " (" + model.KwVar + " i = 0; i < " + D + "; i = i + 1) { a = [a]; }\n" + model.KwPrint + " " + model.BiLen + "(a);\n" + model.KwVar + " s = \"\" + 1;",
			"nested-object":   model.KwVar + " o = {};\n" + model.KwFor + " (" + model.KwVar + " i = 0; i < " + D + "; i = i + 1) { o = {k: o}; }\n" + model.KwPrint + " " + model.BiLen + "(" + model.BiKeys + "(o));",
			"long-sum":        model.KwPrint + " 1" + rep(" + 1", d) + ";",
			"deep-parens":     model.KwPrint + " " + rep("(", d) + "1" + rep(")", d) + ";",
			"deep-unary":      model.KwPrint + " " + rep("-", d) + "1;",
			"call-chain-args": model.KwFun + " g(x) { " + model.KwReturn + " x; }\n" + model.KwPrint + " " + rep("g(", d) + "1" + rep(")", d) + ";",
			"big-array":       model.KwVar + " a = [];\n" + model.KwFor + " (" + model.KwVar + " i = 0; i < " + D + "; i = i + 1) { a = " + model.BiAppend + "(a, i); }\n" + model.KwPrint + " " + model.BiLen + "(a);",
			"string-doubling": model.KwVar + " s = \"ab\";\n" + model.KwFor + " (" + model.KwVar + " i = 0; i < 16; i = i + 1) { s = s + s; }\n" + model.KwPrint + " 1;",
			"deep-blocks":     rep("{", d) + model.KwPrint + " 1;" + rep("}", d),
			"deep-if":         rep(model.KwIf+" ("+model.KwTrue+") ", d) + model.KwPrint + " 1;",
			"closure-chain":   model.KwFun + " mk(n) { " + model.KwIf + " (n == 0) { " + model.KwFun + " z() { " + model.KwReturn + " 0; } " + model.KwReturn + " z; } " + model.KwVar + " inner = mk(n - 1); " + model.KwFun + " w() { " + model.KwReturn + " 1 + inner(); } " + model.KwReturn + " w; }\n" + model.KwPrint + " mk(" + fmt.Sprint(d/10) + ")();",
		}
		_ = kw
		for name, src := range progs {
			sane(c, src, "", "depth|"+name, false)
		}
		// printing a deeply nested (acyclic) value
		if d <= 1000 {
			sane(c, model.KwVar+" a = [];\n"+model.KwFor+" ("+model.KwVar+" i = 0; i < "+D+"; i = i + 1) { a = [a, i]; }\n"+model.KwPrint+" a;", "", "depth|print-nested", false)
		}
	}
	// the same forms as REPL lines (each line its own program)
	for fi, f := range forms {
		if !c.Mine() {
			continue
		}
		var sb strings.Builder
		for _, x := range ops[:12] {
			for _, i := range idxs[:4] {
				for _, st := range parenAll(f.mk(x.Mk, i.Mk)) {
					line := strings.ReplaceAll(strings.TrimSpace(model.Render([]*model.N{st})), "\n", " ")
					sb.WriteString(line + "\n")
				}
			}
		}
		sane(c, sb.String(), "", fmt.Sprintf("repl|%d", fi), true)
	}
	c.Sample(map[string]string{"program": model.KwVar + " a = [1, 2];\na[0] = a;\n" + model.KwPrint + " a;", "requirement": "ends normally or with a reported error"})
	c.Sample(map[string]string{"program": model.KwPrint + " [1, 2][10 ** 400];", "requirement": "reported runtime error, no panic"})
}

package checks

import (
	"fmt"
	"strings"

	"verif/internal/fw"
	"verif/internal/h"
	"verif/internal/model"
)

func init() { Registry["C08"] = C08 }

// frontEndVerdict runs lexer+parser on src and checks the accept/reject
// clauses.  dead<0: accepted.  deadLine: expected line of the first
// diagnostic (0 = not checked); atLeast: the first diagnostic may also be on
// a later line (non-assignable target diagnosed at or after its '=').
func frontEndVerdict(c *fw.Ctx, src string, accepted bool, deadLine int, atLeast bool, sigDetail string) {
	_, _, o := h.Parse(src, h.Opts{Fuel: int64(200000 + 2000*len(src))})
	c.Eval(src, true)
	if abnormal(c, o, "parse", src, fw.Replay{}) {
		return
	}
	fail := func(clause, exp, obs string) {
		c.Violate(fw.Replay{Sig: "C08|" + clause + "|" + sigDetail, What: clause, Mode: "parse", Program: src, Expected: exp, Observed: obs})
	}
	diags := diagLines(o.Stderr)
	if accepted {
		c.Outcome("accepted")
		if o.Stderr != "" || o.HadError {
			fail("accept", "accepted: no diagnostic", fmt.Sprintf("flag=%v stderr=%q", o.HadError, trunc(o.Stderr, 200)))
		}
		return
	}
	c.Outcome(fmt.Sprintf("rejected@%d", deadLine))
	if !o.HadError || len(diags) == 0 {
		fail("reject", "rejected: flag set and a diagnostic", fmt.Sprintf("flag=%v stderr=%q", o.HadError, trunc(o.Stderr, 200)))
		return
	}
	maxLine := 1 + strings.Count(src, "\n")
	for _, d := range diags {
		if d < 1 || d > maxLine {
			fail("diag-line-range", fmt.Sprintf("1..%d", maxLine), fmt.Sprint(d))
			return
		}
	}
	if deadLine > 0 {
		if (!atLeast && diags[0] != deadLine) || (atLeast && diags[0] < deadLine) {
			fail("first-diag-line", fmt.Sprintf("first diagnostic on line %d (atLeast=%v)", deadLine, atLeast), fmt.Sprintf("line %d: %q", diags[0], trunc(o.Stderr, 200)))
		}
	}
}

func visitC08(c *fw.Ctx, tc tokCase, nothingRuns bool) {
	for _, perLine := range []bool{false, true} {
		src, lines, eofLine := renderToks(tc.Syms, perLine)
		if tc.Accepted {
			frontEndVerdict(c, src, true, 0, false, "accepted")
			continue
		}
		dl := eofLine
		atLeast := false
		detail := "incomplete"
		if tc.Dead < len(tc.Syms) {
			dl = lines[tc.Dead]
			detail = "dead-" + tc.Syms[tc.Dead].Kind
			atLeast = tc.Syms[tc.Dead].Kind == "EQUAL"
		}
		frontEndVerdict(c, src, false, dl, atLeast, detail)
	}
	if nothingRuns && !tc.Accepted {
		// no part of a rejected text is executed, status 65 (through main)
		src, _, _ := renderToks(tc.Syms, false)
		prog := model.KwPrint + " \"ran\";\n" + src
		o := h.RunFile(prog, h.Opts{Fuel: 300000})
		c.Eval(prog, true)
		base := fw.Replay{Mode: "file", Program: prog, CLI: true, InStdout: o.Stdout, InStderr: o.Stderr, InStatus: o.Status}
		if abnormal(c, o, "file", prog, base) {
			return
		}
		if o.Stdout != "" || o.Status != 65 || o.Stderr == "" {
			r := base
			r.Sig = "C08|nothing-runs"
			r.What = "a rejected text must not execute anything and exits 65"
			r.Expected = "stdout empty, status 65, a diagnostic"
			r.Observed = fmt.Sprintf("stdout %q status %d stderr %q", trunc(o.Stdout, 80), o.Status, trunc(o.Stderr, 120))
			c.Violate(r)
		}
	}
}

// charLevel: a text over lexical fragments through lexer and parser.
func charLevel(c *fw.Ctx, src string) {
	toks, errs := model.Lex(src)
	hasVar := false
	var kinds []string
	for _, t := range toks {
		if t.Kind == "VAR" {
			hasVar = true
		}
		k := t.Kind
		if k == "IDENTIFIER" {
			if model.IsBuiltin(t.Lexeme) {
				k = "RIDENT"
			} else {
				k = "IDENT"
			}
		}
		if k != "EOF" {
			kinds = append(kinds, k)
		}
	}
	if hasVar && strings.Contains(src, "\n") {
		c.Skip("outside the accept/reject domain: ধরি declaration and a line break")
		return
	}
	if len(errs) > 0 {
		frontEndVerdict(c, src, false, 0, false, "lexical")
		return
	}
	acc, dead := model.Recognize(gramG, kinds)
	accP, deadP := model.Recognize(gramGp, kinds)
	if acc != accP || dead != deadP {
		c.Skip("outside the accept/reject domain: trailing comma in an object literal")
		return
	}
	if acc {
		frontEndVerdict(c, src, true, 0, false, "chars-accepted")
		return
	}
	line := toks[len(toks)-1].Line
	atLeast := false
	if dead < len(kinds) {
		line = toks[dead].Line
		atLeast = kinds[dead] == "EQUAL"
		// a multi-line string token: the implementation reports the line of
		// its last character, which is what the model token carries
	}
	frontEndVerdict(c, src, false, line, atLeast, "chars-rejected")
}

func C08(c *fw.Ctx) {
	fullLen, redLen, exprLen, charLen, stmtLen := 4, 5, 7, 3, 8
	if !c.Quick() {
		fullLen, redLen, exprLen, charLen, stmtLen = 5, 6, 8, 4, 9 // one token more everywhere took 20 minutes; this takes about 6
	}
	if c.Tier == "deep" {
		fullLen, redLen, exprLen, charLen, stmtLen = 6, 8, 10, 4, 11
	}
	if err := loadGrammars(); err != nil {
		c.HarnessError("grammar: " + err.Error())
		return
	}
	c.Bound("full_alphabet_symbols", len(fullAlphabet()))
	c.Bound("full_alphabet_max_tokens", fullLen)
	c.Bound("reduced_alphabet_symbols", len(reducedAlphabet()))
	c.Bound("reduced_alphabet_max_tokens", redLen)
	c.Bound("expression_alphabet_symbols", len(exprAlphabet()))
	c.Bound("expression_alphabet_max_tokens", exprLen)
	c.Bound("char_level_max_fragments", charLen)
	c.R.Rule = "viable-prefix search: from every prefix the amended grammar (Earley over grammer.txt) says is viable, every symbol of the token alphabet is appended; every viable prefix and every dead one-token extension is rendered on one line and one token per line and run through the real lexer+parser; plus every text over the lexical fragments up to the bound, deep-nesting, 255-parameter and reserved-name families; non-trivial = in the accept/reject domain; distinct by text"
	ext := []tokSym{{"IDENT", "a"}}
	if !c.Quick() {
		ext = []tokSym{{"IDENT", "a"}, {"NUMBER", "1"}, {"LEFT_BRACE", "{"}}
	}
	c.Bound("dead_leaf_extension_symbols", len(ext))
	v, d, o := walkTokensExt(c, fullAlphabet(), fullLen, []tokSym{}, func(tc tokCase) { visitC08(c, tc, len(tc.Syms) <= 3) })
	c.Add("full_viable_prefixes", v)
	c.Add("full_dead_extensions", d)
	c.Add("full_out_of_domain", o)
	v, d, o = walkTokens(c, reducedAlphabet(), redLen, func(tc tokCase) {
		if len(tc.Syms) > fullLen {
			visitC08(c, tc, false)
		}
	})
	c.Add("reduced_viable_prefixes", v)
	c.Add("reduced_dead_extensions", d)
	// (dead leaves of the expression alphabet are extended by an identifier / a number and a ';': a dead
	// text must stay dead whatever follows, e.g. `- a . a = a ;`)
	v, d, o = walkTokensExt(c, exprAlphabet(), exprLen, []tokSym{{"IDENT", "a"}, {"NUMBER", "1"}}, func(tc tokCase) {
		if len(tc.Syms) > redLen || (!tc.Accepted && tc.Dead < len(tc.Syms)-1) {
			visitC08(c, tc, false)
		}
	})
	c.Add("expr_viable_prefixes", v)
	c.Add("expr_dead_extensions", d)
	c.Bound("statement_alphabet_symbols", len(stmtAlphabet()))
	c.Bound("statement_alphabet_max_tokens", stmtLen)
	v, d, o = walkTokensExt(c, stmtAlphabet(), stmtLen, ext, func(tc tokCase) {
		if len(tc.Syms) > fullLen {
			visitC08(c, tc, false)
		}
	})
	c.Add("stmt_viable_prefixes", v)
	c.Add("stmt_dead_extensions", d)
	// character level
	frs := append([]string{}, c09Wide...)
	frs = append(frs, model.KwPrint, model.KwIf, "বা", model.BiLen)
	enumStrings(c, frs, charLen, func(s string) { charLevel(c, s) })

	// sizes: one-line texts stretched by a filler whose length crosses every power of two from 2^8 to 2^17
	// (2^k-1, 2^k, 2^k+1), the filler being blanks between two statements, a string literal, a trailing
	// comment, an identifier, the digits of a number; an accepted and a rejected variant of each; through
	// the parser alone, as a script, and as one line of the interactive prompt followed by another line
	{
		var sizes []int
		for k := 8; k <= 17; k++ {
			sizes = append(sizes, 1<<uint(k)-1, 1<<uint(k), 1<<uint(k)+1)
		}
		c.Bound("stretched_text_max_filler", sizes[len(sizes)-1])
		type stretched struct {
			tag    string
			text   func(l int, ok bool) string
			stdout func(l int) string // what the accepted variant prints
		}
		rep := strings.Repeat
		forms := []stretched{
			{"blanks", func(l int, ok bool) string {
				tail := model.KwPrint + " 7;"
				if !ok {
					tail = model.KwPrint + " ;"
				}
				return model.KwPrint + " 424242;" + rep(" ", l) + tail
			}, func(l int) string { return "424242\n7\n" }},
			{"tabs", func(l int, ok bool) string {
				tail := model.KwPrint + " 7;"
				if !ok {
					tail = ") " + model.KwPrint + " 7;"
				}
				return model.KwPrint + " 424242;" + rep("\t", l) + tail
			}, func(l int) string { return "424242\n7\n" }},
			{"string", func(l int, ok bool) string {
				if !ok {
					return model.KwPrint + " 424242; " + model.KwPrint + " \"" + rep("a", l) + "\" 1;"
				}
				return model.KwPrint + " 424242; " + model.KwPrint + " \"" + rep("a", l) + "\";"
			}, func(l int) string { return "424242\n" + rep("a", l) + "\n" }},
			{"bangla-string", func(l int, ok bool) string {
				if !ok {
					return model.KwPrint + " 424242; " + model.KwPrint + " \"" + rep("\u0995", l) + "\" 1;"
				}
				return model.KwPrint + " 424242; " + model.KwPrint + " \"" + rep("\u0995", l) + "\";"
			}, func(l int) string { return "424242\n" + rep("\u0995", l) + "\n" }},
			{"comment", func(l int, ok bool) string {
				if !ok {
					return model.KwPrint + " 424242; " + model.KwPrint + " ; //" + rep("x", l)
				}
				return model.KwPrint + " 424242; " + model.KwPrint + " 7; //" + rep("x", l)
			}, func(l int) string { return "424242\n7\n" }},
			{"identifier", func(l int, ok bool) string {
				id := rep("a", l)
				if !ok {
					return model.KwPrint + " 424242; " + model.KwVar + " " + id + " = 7 " + model.KwPrint + " " + id + ";"
				}
				return model.KwPrint + " 424242; " + model.KwVar + " " + id + " = 7; " + model.KwPrint + " " + id + ";"
			}, func(l int) string { return "424242\n7\n" }},
			{"digits", func(l int, ok bool) string {
				if !ok {
					return model.KwPrint + " 424242; " + model.KwPrint + " " + rep("0", l) + "7 7;"
				}
				return model.KwPrint + " 424242; " + model.KwPrint + " " + rep("0", l) + "7;"
			}, func(l int) string { return "424242\n7\n" }},
		}
		for _, f := range forms {
			for _, l := range sizes {
				for _, ok := range []bool{true, false} {
					if !c.Mine() {
						continue
					}
					src := f.text(l, ok)
					sig := fmt.Sprintf("stretched|%s|accepted=%v", f.tag, ok)
					frontEndVerdict(c, src, ok, 0, false, sig)
					fuel := int64(400000 + 400*len(src))
					expOut, expStatus := f.stdout(l), 0
					if !ok {
						expOut, expStatus = "", 65
					}
					// as a script
					o := h.RunFile(src+"\n", h.Opts{Fuel: fuel})
					c.Eval("file\x00"+src, true)
					base := fw.Replay{Mode: "file", Program: src + "\n", CLI: true, InStdout: trunc(o.Stdout, 300), InStderr: trunc(o.Stderr, 300), InStatus: o.Status}
					if !abnormal(c, o, "file", trunc(src, 200), base) {
						if o.Stdout != expOut || o.Status != expStatus || (o.Stderr == "") != ok {
							r := base
							r.Sig = "C08|" + sig + "|script"
							r.What = "a long text must be classified and run exactly like a short one"
							r.Expected = fmt.Sprintf("stdout %q status %d, diagnostic: %v", trunc(expOut, 60), expStatus, !ok)
							r.Observed = fmt.Sprintf("stdout %q status %d stderr %q", trunc(o.Stdout, 60), o.Status, trunc(o.Stderr, 120))
							c.Violate(r)
						}
					}
					// as a line of the prompt, followed by a second line
					session := src + "\n" + model.KwPrint + " 3;\n"
					o = h.RunRepl(session, h.Opts{Fuel: fuel})
					c.Eval("repl\x00"+src, true)
					base = fw.Replay{Mode: "repl", Program: session, CLI: true, InStdout: trunc(o.Stdout, 300), InStderr: trunc(o.Stderr, 300), InStatus: o.Status}
					if !abnormal(c, o, "repl", trunc(src, 200), base) {
						want := ">> " + expOut + ">> 3\n>> "
						if o.Stdout != want || o.Status != 0 || (o.Stderr == "") != ok {
							r := base
							r.Sig = "C08|" + sig + "|prompt-line"
							r.What = "a long line of the prompt must be classified and run as one text, exactly like a short one, and the next line must still be answered"
							r.Expected = fmt.Sprintf("stdout %q status 0, diagnostic: %v", trunc(want, 80), !ok)
							r.Observed = fmt.Sprintf("stdout %q status %d stderr %q", trunc(o.Stdout, 80), o.Status, trunc(o.Stderr, 120))
							c.Violate(r)
						}
					}
				}
			}
		}
	}
	// every code point up to U+2FFF (and the supplementary Bengali-adjacent and symbol ranges) as a text of
	// its own, after a letter, and as a declared name: accepted exactly when the documented lexer makes an
	// identifier (or nothing) of it
	for r := rune(0x80); r <= 0x2FFF; r++ {
		if !c.Mine() {
			continue
		}
		for _, txt := range []string{string(r) + ";", "x" + string(r) + ";", model.KwVar + " " + string(r) + " = 1;"} {
			charLevel(c, txt)
		}
	}
	// deep nesting: verdict known by construction
	depths := []int{10, 100, 1000}
	if !c.Quick() {
		depths = append(depths, 10000)
	}
	rep := strings.Repeat
	type nest struct {
		name                string
		open, mid, close    string
		prefix, suffix      string
		truncatedIsRejected bool
	}
	nests := []nest{
		{"parens", "(", "1", ")", "", ";", true},
		{"arrays", "[", "", "]", "", ";", true},
		{"blocks", "{", "", "}", "", "", true},
		{"objects", "{a:", "1", "}", model.KwVar + " v = ", ";", true},
		{"unary-minus", "-", "1", "", "", ";", false},
		{"unary-bang", "!", "a", "", "", ";", false},
		{"calls", "f(", "", ")", "", ";", true},
		{"index-chain", "", "a", "[0]", "", ";", false},
		{"prop-chain", "", "a", ".b", "", ";", false},
		{"call-chain", "", "f", "()", "", ";", false},
		{"binary-chain", "1+", "1", "", "", ";", false},
		{"assign-chain", "a=", "1", "", "", ";", false},
		{"if-nest", model.KwIf + "(1)", "1;", "", "", "", false},
		{"else-chain", model.KwIf + "(1)1;" + model.KwElse + " ", "1;", "", "", "", false},
		{"fun-nest", model.KwFun + " f(){", "", "}", "", "", true},
		{"while-nest", model.KwWhile + "(1)", "1;", "", "", "", false},
	}
	for _, nst := range nests {
		for _, dep := range depths {
			if !c.Mine() {
				continue
			}
			src := nst.prefix + rep(nst.open, dep) + nst.mid + rep(nst.close, dep) + nst.suffix
			frontEndVerdict(c, src, true, 0, false, "deep-"+nst.name)
			if nst.truncatedIsRejected {
				tr := nst.prefix + rep(nst.open, dep) + nst.mid + rep(nst.close, dep-1) + nst.suffix
				frontEndVerdict(c, tr, false, 1, false, "deep-truncated-"+nst.name)
			}
			// one token per line
			srcL := nst.prefix + rep(nst.open+"\n", dep) + nst.mid + rep("\n"+nst.close, dep) + nst.suffix
			if !strings.Contains(nst.prefix, model.KwVar) {
				frontEndVerdict(c, srcL, true, 0, false, "deep-lines-"+nst.name)
			}
		}
	}
	// the same nests through the whole executable path (main: read, scan, parse, run) at depth 10^3 and
	// 10^4: a truncated nest is rejected with status 65 and nothing runs, a complete one is not rejected
	for _, nst := range nests {
		if nst.name == "while-nest" {
			continue // a complete one never terminates when run
		}
		for _, dep := range []int{1000, 10000} {
			if !c.Mine() {
				continue
			}
			head := model.KwPrint + " \"ran\";\n"
			full := head + nst.prefix + rep(nst.open, dep) + nst.mid + rep(nst.close, dep) + nst.suffix + "\n"
			o := h.RunFile(full, h.Opts{Fuel: int64(50_000_000)})
			c.Eval("main\x00"+full, true)
			base := fw.Replay{Mode: "file", Program: trunc(full, 300), CLI: true, InStdout: trunc(o.Stdout, 200), InStderr: trunc(o.Stderr, 300), InStatus: o.Status}
			if !abnormal(c, o, "file", trunc(full, 200), base) && o.Status == 65 {
				r := base
				r.Sig = "C08|deep-through-main|accepted|" + nst.name
				r.What = fmt.Sprintf("a derivable text nested %d deep is rejected when run through main", dep)
				r.Expected, r.Observed = "not status 65", fmt.Sprintf("status 65 stderr %q", trunc(o.Stderr, 200))
				c.Violate(r)
			}
			if nst.truncatedIsRejected {
				tr := head + nst.prefix + rep(nst.open, dep) + nst.mid + rep(nst.close, dep-1) + nst.suffix + "\n"
				o := h.RunFile(tr, h.Opts{Fuel: int64(50_000_000)})
				c.Eval("main\x00"+tr, true)
				base := fw.Replay{Mode: "file", Program: trunc(tr, 300), CLI: true, InStdout: trunc(o.Stdout, 200), InStderr: trunc(o.Stderr, 300), InStatus: o.Status}
				if !abnormal(c, o, "file", trunc(tr, 200), base) && (o.Status != 65 || o.Stdout != "" || o.Stderr == "") {
					r := base
					r.Sig = "C08|deep-through-main|rejected|" + nst.name
					r.What = fmt.Sprintf("a text nested %d deep with one closer missing must be rejected (65, a diagnostic, nothing run)", dep)
					r.Expected, r.Observed = "status 65, a diagnostic, empty stdout", fmt.Sprintf("status %d stdout %q stderr %q", o.Status, trunc(o.Stdout, 60), trunc(o.Stderr, 200))
					c.Violate(r)
				}
			}
		}
	}
	// 255-parameter limit
	if c.Mine() {
		for _, n := range []int{1, 254, 255, 256, 300} {
			ps := make([]string, n)
			as := make([]string, n)
			for i := range ps {
				ps[i] = fmt.Sprintf("p%d", i)
				as[i] = "1"
			}
			src := model.KwFun + " f(" + strings.Join(ps, ", ") + ") {}\n"
			frontEndVerdict(c, src, n <= 255, 1, false, fmt.Sprintf("params-%d", n))
			call := model.KwFun + " f() {}\nf(" + strings.Join(as, ", ") + ");"
			frontEndVerdict(c, call, true, 0, false, fmt.Sprintf("args-%d", n))
		}
	}
	// names: barred as declared names exactly when they are built-ins
	cands := append([]string{}, model.Builtins...)
	cands = append(cands, "input", "print", "len", "clock", "append", "ইনপুট২", "লেনx", "x", "নাম", strings.ReplaceAll(model.KwElse, "\u09DF", "\u09AF\u09BC"), strings.ReplaceAll(model.KwContinue, "\u09DF", "\u09AF\u09BC"), "Nil", "NIL", "true", "false", "and", "or", "var", "fun", "return")
	for _, name := range cands {
		if !c.Mine() {
			continue
		}
		probe := h.RunFile(name+";", h.Opts{})
		isBuiltin := probe.Stderr == "" && probe.Status == 0 && probe.Panic == ""
		if isBuiltin != model.IsBuiltin(name) {
			// the global environment and the documented built-in list disagree
			c.Violate(fw.Replay{Sig: "C08|builtin-set|" + name, What: "name is bound as a built-in but is not one of the 17 built-ins (or vice versa)", Mode: "file", Program: name + ";", CLI: true,
				Expected: fmt.Sprintf("built-in=%v", model.IsBuiltin(name)), Observed: fmt.Sprintf("status %d stderr %q", probe.Status, trunc(probe.Stderr, 100)), InStdout: probe.Stdout, InStderr: probe.Stderr, InStatus: probe.Status})
		}
		bar := model.IsBuiltin(name)
		frontEndVerdict(c, model.KwVar+" "+name+" = 1;", !bar, 1, false, "reserved-var|"+fmt.Sprint(bar))
		frontEndVerdict(c, model.KwVar+" ok = 1, "+name+";", !bar, 1, false, "reserved-var2|"+fmt.Sprint(bar))
		frontEndVerdict(c, model.KwFun+" "+name+"() {}", !bar, 1, false, "reserved-fun|"+fmt.Sprint(bar))
		frontEndVerdict(c, model.KwFor+" ("+model.KwVar+" "+name+" = 0; ; ) {}", !bar, 1, false, "reserved-for|"+fmt.Sprint(bar))
		// allowed everywhere else
		frontEndVerdict(c, model.KwFun+" g("+name+") {}", true, 0, false, "reserved-param")
		frontEndVerdict(c, "o."+name+" = {"+name+": 1};", true, 0, false, "reserved-prop")
	}
	c.R.Traces = c.R.States
	c.Sample(map[string]interface{}{"tokens": "IF ( a ) ELSE", "verdict": "dead at token 4 (ELSE); first diagnostic expected on its line"})
	c.Sample(map[string]interface{}{"text": model.KwVar + " a = { a : 1 , } ;", "verdict": "out of domain (trailing comma)"})
}

package checks

import (
	"fmt"
	"os"
	"path/filepath"
	"regexp"
	"sort"
	"strings"

	"golang.org/x/text/unicode/norm"
	"verif/internal/fw"
	"verif/internal/h"
	"verif/internal/model"
)

func init() { Registry["C18"] = C18 }

var lineTag = regexp.MustCompile(`\[line [0-9]+\]`)
var quotedText = regexp.MustCompile(`'[^']*'`)

type c18Out struct {
	stdout, diag string
	status       int
}

// c18Fuel is the fuel of transformed runs: a generous multiple of what the
// original program spent, so that a transformation that makes a program
// diverge is recognised quickly.
var c18Fuel int64 = 3_000_000

func c18Run(c *fw.Ctx, src, stdin string) (c18Out, h.Outcome, bool) {
	o := h.RunFile(src, h.Opts{Stdin: stdin, StdinMode: 1, Fuel: c18Fuel})
	c.Eval(src, true)
	if o.Panic != "" || o.Diverged {
		// abnormal ends are C07's business; a transformation must still not change them
		return c18Out{"<abnormal>", o.Panic, -9}, o, true
	}
	return c18Out{o.Stdout, lineTag.ReplaceAllString(o.FirstDiag(), "[line _]"), o.Status}, o, true
}

// gap-level transformations --------------------------------------------

type lexed struct {
	src  string
	rs   []rune
	toks []model.Tok // without EOF
}

func lexProgram(src string) (*lexed, bool) {
	toks, errs := model.Lex(src)
	if len(errs) > 0 {
		return nil, false
	}
	return &lexed{src, []rune(src), toks[:len(toks)-1]}, true
}

// inVarDecl[i]: gap before token i lies inside a ধরি declaration (between
// the keyword and its terminating ';').
func (l *lexed) varGaps() []bool {
	in := make([]bool, len(l.toks)+1)
	open := false
	for i, t := range l.toks {
		in[i] = open
		if t.Kind == "VAR" {
			open = true
		}
		if t.Kind == "SEMICOLON" {
			open = false
		}
	}
	in[len(l.toks)] = open
	return in
}

// rebuild writes the program with `ins[i]` inserted in the gap before token i
// (ins[len] after the last token) and tokens replaced by `repl` when set.
func (l *lexed) rebuild(ins map[int]string, repl map[int]string) string {
	var sb strings.Builder
	pos := 0
	for i, t := range l.toks {
		sb.WriteString(string(l.rs[pos:t.Start]))
		sb.WriteString(ins[i])
		if r, ok := repl[i]; ok {
			sb.WriteString(r)
		} else {
			sb.WriteString(string(l.rs[t.Start:t.End]))
		}
		pos = t.End
	}
	sb.WriteString(ins[len(l.toks)])
	sb.WriteString(string(l.rs[pos:]))
	return sb.String()
}

var layoutInserts = []struct {
	name, text string
	newline    bool
}{{"blank", " ", false}, {"tab", "\t", false}, {"block-comment", " /*c*/ ", false}, {"line-comment", " //c\n", true}, {"newline", "\n", true}, {"crlf", "\r\n", true},
	// comments of other shapes: empty, runs of stars of both parities, a star and a slash inside, several lines
	{"block-comment-empty", "/**/", false}, {"block-comment-stars", " /***/ /** c **/ /**** c ***/ ", false}, {"block-comment-inner", " /* * / // */ ", false},
	{"block-comment-lines", " /* a\n * b\n **/ ", true}, {"line-comment-shapes", " //\n // /* \n//*/\n", true}}

func digitVariants(lex string) []string {
	return []string{toScript(model.ToASCII(lex), 0), toScript(model.ToASCII(lex), 1), toScript(model.ToASCII(lex), 2)}
}

// renaming schemes: new spelling of a user identifier
var renameSchemes = []struct {
	name string
	f    func(string) string
}{
	{"to-bangla", func(n string) string { return "নতুন_" + n + "_ক" }},
	{"to-latin", func(n string) string { return "ren_" + latinize(n) + "_z" }},
	{"combining-marks", func(n string) string { return "é" + n + "ে়" }},
	{"keyword-prefix", func(n string) string { return model.KwIf + n + model.KwVar }},
	// spellings that Unicode normalisation would change: precomposed Bangla letters that NFC
	// always decomposes, and a decomposed Latin letter that NFC composes
	{"nfc-unstable-bangla", func(n string) string { return "\u09AC\u09DC" + n + "\u09DF\u09DD" }},
	{"nfd-latin", func(n string) string { return "e\u0301" + n + "o\u0308" }},
}

func normNFC(s string) string { return norm.NFC.String(s) }

func latinize(n string) string {
	var sb strings.Builder
	for _, r := range n {
		if r < 128 {
			sb.WriteRune(r)
		} else {
			fmt.Fprintf(&sb, "u%x", r)
		}
	}
	return sb.String()
}

// userIdentifiers returns, for each token index holding a renamable
// identifier, its name.
func (l *lexed) userIdentifiers() map[int]string {
	out := map[int]string{}
	for i, t := range l.toks {
		if t.Kind != "IDENTIFIER" || model.IsBuiltin(t.Lexeme) {
			continue
		}
		if i > 0 && l.toks[i-1].Kind == "DOT" {
			continue // property name
		}
		if i+1 < len(l.toks) && l.toks[i+1].Kind == "COLON" {
			continue // object key
		}
		out[i] = t.Lexeme
	}
	return out
}

// tree-level transformations ---------------------------------------------

// exprSites lists pointers to every parenthesisable expression slot.
func exprSites(n *model.N, out *[]**model.N) {
	if n == nil {
		return
	}
	for i := range n.A {
		k := n.A[i]
		if k == nil {
			continue
		}
		switch k.K {
		case "num", "str", "bool", "nil", "id", "un", "bin", "log", "grp", "call", "idx", "prop", "arr", "obj", "asg", "iasg", "pasg":
			// expression child: a slot, unless it is a for-initialiser statement wrapper
			if !(n.K == "expr" && false) {
				*out = append(*out, &n.A[i])
			}
		}
		exprSites(k, out)
	}
}

// stmtLists lists every statement list where a declaration may stand.
func stmtLists(prog *[]*model.N, out *[]*[]*model.N) {
	*out = append(*out, prog)
	var walk func(n *model.N)
	walk = func(n *model.N) {
		if n == nil {
			return
		}
		if n.K == "block" || n.K == "fun" {
			*out = append(*out, &n.A)
		}
		for _, k := range n.A {
			walk(k)
		}
	}
	for _, s := range *prog {
		walk(s)
	}
}

func deadCode(k int) []*model.N {
	return []*model.N{
		model.If(model.Bool(false), model.Block(model.ExprS(model.Id("never_defined")), model.Print(model.Bin("/", model.Num(1), model.Num(0))), model.Break()), nil),
		model.Fun(fmt.Sprintf("unused_%d", k), []string{"p"}, model.ExprS(model.Id("never_defined")), model.Return(model.Id("p"))),
		model.While(model.Bool(false), model.Block(model.Print(model.Str("dead")))),
		model.If(model.Bool(true), model.Block(), model.Block(model.Var(fmt.Sprintf("unused_v%d", k), model.Num(0)), model.Print(model.Str("dead")))),
		model.ExprS(model.Log(model.KwAnd, model.Bool(false), model.Grp(model.Bin("/", model.Num(1), model.Num(0))))),
		model.ExprS(model.Log("||", model.Bool(true), model.Id("never_defined"))),
	}
}

// unreachableTail: statements placed directly (not wrapped in anything) after an unconditional
// থামো / চালিয়ে_যাও / ফেরত of a statement list: never executed, but members of that very block.
func unreachableTail(k int) []*model.N {
	return []*model.N{
		model.Var(fmt.Sprintf("unused_t%d", k), model.Num(0)),
		model.Print(model.Str("dead")),
		model.Fun(fmt.Sprintf("unused_f%d", k), nil, model.Return(model.Num(1))),
		model.VarList([]string{fmt.Sprintf("unused_a%d", k), fmt.Sprintf("unused_b%d", k)}, []*model.N{model.Num(1), nil}),
	}
}

func cloneProg(p []*model.N) []*model.N {
	out := make([]*model.N, len(p))
	for i, s := range p {
		out[i] = s.Clone()
	}
	return out
}

func C18(c *fw.Ctx) {
	c.R.Rule = "corpus: the shipped examples and small-bound corpora (control-flow skeletons, scope histories, probe contexts, fault x position programs); families: (a) blank / tab / comment / newline inserted in every inter-token gap (newlines not inside a ধরি declaration), (b) every numeric literal in ASCII / Bangla / alternating digits, (c) every logical operator in its other spelling, (d) four renaming schemes of user identifiers, (e) redundant parentheses around every value-producing sub-expression, (f) dead code at every statement boundary; each applied at every site singly (sub-corpus) and at all sites at once (whole corpus); outcome = stdout, status, first diagnostic modulo line numbers and renamed names; distinct by program text"
	// ---- corpus
	type item struct {
		src, stdin, origin string
		single             bool // also apply every transformation at every single site
	}
	var corpus []item
	files, _ := filepath.Glob("/repo/example/*.bn")
	sort.Strings(files)
	for _, f := range files {
		b, err := os.ReadFile(f)
		if err != nil {
			continue
		}
		var keep []string
		for _, l := range strings.Split(string(b), "\n") {
			if strings.Contains(l, model.BiClock+"(") {
				continue
			}
			keep = append(keep, l)
		}
		corpus = append(corpus, item{strings.Join(keep, "\n"), "typed text\nmore\n", "example:" + filepath.Base(f), true})
	}
	every := func(n *int, k int) bool { *n++; return *n%k == 0 }
	// control-flow skeletons
	skSize, k1 := 4, 60
	if !c.Quick() {
		skSize, k1 = 5, 200
	}
	n := 0
	g := &skGen{maxDepth: 3}
	g.stmts(skSize, skCtx{}, func(s *model.N, used int) {
		s = s.Clone()
		kk := 0
		retag(s, &kk)
		prog := []*model.N{model.Fun("p", []string{"t", "v"}, model.Print(model.Id("t")), model.Return(model.Id("v"))), T("begin"), s, T("end")}
		m := &model.Machine{MaxSteps: 3000}
		if r := m.Run(parenAll(cloneProg(prog))); r.Diverged {
			return
		}
		corpus = append(corpus, item{model.Render(parenAll(prog)), "", "skeleton", every(&n, k1)})
	})
	// probe contexts with logical operators and numbers
	vals := c14Values()
	n = 0
	for _, op := range append(append([]string{}, model.BinOps...), "||", "&&", model.KwOr, model.KwAnd) {
		for _, a := range vals {
			for _, b := range vals[:8] {
				var e *model.N
				pa := model.CallN("p", model.Str("T1"), a.Mk())
				pb := model.CallN("p", model.Str("T2"), b.Mk())
				if model.BinLevel[op] == 0 {
					e = model.Log(op, pa, pb)
				} else {
					e = model.Bin(op, pa, pb)
				}
				prog := append(c14Prelude(), model.Print(e), model.Print(model.Log("&&", model.Log(model.KwOr, a.Mk(), model.Num(12.5)), model.Log("||", b.Mk(), model.Num(300)))))
				corpus = append(corpus, item{model.Render(parenAll(prog)), "", "probe-context", every(&n, 97)})
			}
		}
	}
	// expression trees of depth 2 over every node form, numeric leaves, printed
	n = 0
	{
		leaves := []*model.N{model.Num(3)}
		var t1 []*model.N
		exprForms(leaves, false, func(e *model.N) { t1 = append(t1, e) })
		d1 := append(append([]*model.N{}, leaves...), t1...)
		exprForms(d1, false, func(e *model.N) {
			n++
			if n%5 != 0 && !(e.K == "un" || (e.K == "bin" && (e.A[1].K == "un" || e.A[0].K == "un"))) {
				return
			}
			prog := []*model.N{model.Var("v", model.Num(2)), model.Var("a", model.Arr(model.Num(5), model.Num(6))), model.Print(e.Clone()), model.Print(model.Id("v"))}
			corpus = append(corpus, item{model.Render(parenAll(prog)), "", "expression-tree", n%211 == 0})
		})
	}
	// array and object histories (aliasing, append / remove idioms, listings)
	n = 0
	{
		aops := arrOps()
		for st := 0; st < arrStartCount; st++ {
			for i, o1 := range aops {
				if o1.Leaf {
					continue
				}
				for j, o2 := range aops {
					if o2.Leaf || (c.Quick() && (i*len(aops)+j)%3 != 0) {
						continue
					}
					corpus = append(corpus, item{model.Render(parenAll(arrProgram([]int{st, i, j}, aops))), "", "array-history", every(&n, 997)})
				}
			}
		}
		oops := objOps(false)
		for i, o1 := range oops {
			if o1.Leaf {
				continue
			}
			for j, o2 := range oops {
				if o2.Leaf || (i*len(oops)+j)%2 != 0 {
					continue
				}
				corpus = append(corpus, item{model.Render(parenAll(objProgram([]int{i, j}, oops))), "", "object-history", every(&n, 997)})
			}
		}
	}
	// fault x position programs (diagnostics quote names)
	faults, poss := c06Faults(), c06Positions()
	n = 0
	for _, f := range faults {
		for _, pos := range poss {
			if f.E == nil && !pos.StmtPos || (f.Stray && pos.InLoop) {
				continue
			}
			prog := append(c06Prelude(), T("begin"))
			prog = append(prog, pos.Mk(f.E, f.St)...)
			prog = append(prog, T("end"))
			corpus = append(corpus, item{model.Render(parenAll(prog)), "", "fault-position", every(&n, 23)})
		}
	}
	// scope histories of length <= 2
	n = 0
	evs := []scEvent{{"decl", "x"}, {"decl", "y"}, {"asg", "x"}, {"read", "x"}, {"read", "y"}, {"open", ""}, {"openfor", "x"}, {"openfun", ""}, {"call", "wx"}, {"call", "dx"}, {"mkclo", "x"}, {"close", ""}}
	for _, e1 := range evs {
		for _, e2 := range evs {
			for _, e3 := range evs {
				hist := []scEvent{e1, e2, e3}
				if e1.Op == "close" || (e2.Op == "close" && !strings.HasPrefix(e1.Op, "open")) {
					continue
				}
				depthOK := true
				open := 0
				for _, e := range hist {
					if strings.HasPrefix(e.Op, "open") {
						open++
					}
					if e.Op == "close" {
						open--
						if open < 0 {
							depthOK = false
						}
					}
				}
				if !depthOK {
					continue
				}
				corpus = append(corpus, item{model.Render(parenAll(buildScopeProgram(hist))), "", "scope-history", every(&n, 41)})
			}
		}
	}
	// a name of the enclosing scope declared again inside a block that also holds a jump
	{
		id, num := model.Id, model.Num
		outer := []func() *model.N{
			func() *model.N { return model.Var("nm", model.Str("outer")) },
			func() *model.N { return model.Fun("nm", nil, model.Return(model.Str("outer-fn"))) },
		}
		inner := []func() []*model.N{
			func() []*model.N { return []*model.N{model.Var("nm", model.Str("inner"))} },
			func() []*model.N { return []*model.N{model.Fun("nm", nil, model.Return(model.Str("inner-fn")))} },
			func() []*model.N {
				return []*model.N{model.VarList([]string{"other", "nm"}, []*model.N{num(1), model.Str("inner-list")})}
			},
			func() []*model.N {
				return []*model.N{model.Fun("helper", nil, model.Return(num(1))), model.ExprS(model.Asg("nm", model.Str("assigned")))}
			},
		}
		blocks := []func(body []*model.N) []*model.N{
			func(b []*model.N) []*model.N {
				return []*model.N{model.While(model.Bool(true), model.Block(append(b, model.Print(id("nm")), model.Break())...))}
			},
			func(b []*model.N) []*model.N {
				return []*model.N{model.For(model.Var("i", num(0)), model.Bin("<", id("i"), num(2)), model.Asg("i", model.Bin("+", id("i"), num(1))), model.Block(append(b, model.Print(id("nm")), model.Continue())...))}
			},
			func(b []*model.N) []*model.N {
				return []*model.N{model.Fun("run", nil, model.While(model.Bool(true), model.Block(append(b, model.Print(id("nm")), model.Return(num(0)))...))), model.ExprS(model.CallN("run"))}
			},
			func(b []*model.N) []*model.N {
				return []*model.N{model.Fun("run2", nil, model.Block(append(b, model.Print(id("nm")), model.Return(num(0)))...)), model.ExprS(model.CallN("run2"))}
			},
		}
		for _, o := range outer {
			for _, in := range inner {
				for _, bl := range blocks {
					prog := []*model.N{o()}
					prog = append(prog, bl(in())...)
					prog = append(prog, model.Print(id("nm")))
					prog = append(prog, bl(in())...)
					prog = append(prog, model.Print(id("nm")))
					corpus = append(corpus, item{model.Render(parenAll(prog)), "", "shadowing-beside-a-jump", true})
				}
			}
		}
	}
	// deep recursion: the transformations must not change what a deep recursion does (two shapes, depths
	// 2^10, 2^12, 2^13, 2^14, 3*2^13: what runs under every transformation within the 192 MB the harness allows
	// an in-process Go stack -- at 2^15 the fully parenthesised text needs more in-process, while the real
	// executable still runs it: a limit of the harness, so deeper recursions are left out)
	{
		id, num := model.Id, model.Num
		for _, d := range []int{1 << 10, 1 << 12, 1 << 13, 1 << 14, 3 << 13} {
			sum := []*model.N{
				model.Fun("sm", []string{"n"}, model.If(model.Bin("<=", id("n"), num(0)), model.Block(model.Return(num(0))), nil), model.Return(model.Bin("+", id("n"), model.CallN("sm", model.Bin("-", id("n"), num(1)))))),
				model.Print(model.CallN("sm", num(10))), model.Print(model.CallN("sm", num(float64(d)))), T("done"),
			}
			mutual := []*model.N{
				model.Fun("ev", []string{"n"}, model.If(model.Bin("==", id("n"), num(0)), model.Block(model.Return(model.Bool(true))), nil), model.Return(model.Un("!", model.CallN("od", model.Bin("-", id("n"), num(1)))))),
				model.Fun("od", []string{"n"}, model.If(model.Bin("==", id("n"), num(0)), model.Block(model.Return(model.Bool(true))), nil), model.Return(model.Un("!", model.CallN("ev", model.Bin("-", id("n"), num(1)))))),
				model.Print(model.CallN("ev", num(float64(d)))), T("done"),
			}
			corpus = append(corpus, item{model.Render(parenAll(sum)), "", "deep-recursion", false}, item{model.Render(parenAll(mutual)), "", "deep-recursion", false})
		}
	}
	c.Bound("corpus_programs", len(corpus))
	singles := 0
	for _, it := range corpus {
		if it.single {
			singles++
		}
	}
	c.Bound("single_site_sub_corpus", singles)

	report := func(it item, fam, how, tsrc string, ref, got c18Out, o h.Outcome) {
		differs := "stdout"
		switch {
		case ref.stdout != got.stdout:
		case ref.status != got.status:
			differs = "status"
		case quotedText.ReplaceAllString(ref.diag, "'…'") == quotedText.ReplaceAllString(got.diag, "'…'"):
			slug := strings.Map(func(r rune) rune {
				if (r >= 'a' && r <= 'z') || (r >= 'A' && r <= 'Z') {
					return r
				}
				return '-'
			}, quotedText.ReplaceAllString(strings.SplitN(ref.diag, "\n", 2)[0], ""))
			differs = "diagnostic-quoted-expression|" + strings.Trim(strings.Join(strings.FieldsFunc(slug, func(r rune) bool { return r == '-' }), "-"), "-")
		default:
			differs = "diagnostic"
		}
		c.Violate(fw.Replay{Sig: "C18|" + fam + "|" + differs, What: "the meaning of a program changed under transformation " + fam + " (" + how + ")", Mode: "file", Program: tsrc, Related: []string{it.src}, Stdin: it.stdin, CLI: true,
			Expected: fmt.Sprintf("as the original: stdout %q diag %q status %d", trunc(ref.stdout, 300), ref.diag, ref.status),
			Observed: fmt.Sprintf("stdout %q diag %q status %d", trunc(got.stdout, 300), got.diag, got.status), InStdout: o.Stdout, InStderr: o.Stderr, InStatus: o.Status})
	}

	for ci, it := range corpus {
		if ci%c.NShards != c.Shard {
			continue
		}
		if c.ViolatingCases() > 3000 {
			c.R.Exhaustive = false
			c.Note("stopped early: more than 3000 violating cases in this shard")
			break
		}
		c18Fuel = 3_000_000
		ref, refO, _ := c18Run(c, it.src, it.stdin)
		if !refO.Diverged {
			c18Fuel = 20*refO.FuelSpent + 20_000
		}
		lx, ok := lexProgram(it.src)
		if !ok {
			c.Skip("corpus program with a lexical error")
			continue
		}
		check := func(fam, how, tsrc string, unrename map[string]string) {
			got, o, _ := c18Run(c, tsrc, it.stdin)
			for nw, old := range unrename {
				for _, form := range []string{nw, normNFC(nw)} {
					got.stdout = strings.ReplaceAll(got.stdout, form, old)
					got.diag = strings.ReplaceAll(got.diag, form, old)
				}
			}
			c.Count("transformed_" + fam)
			if got != ref {
				report(it, fam, how, tsrc, ref, got, o)
			}
		}
		inVar := lx.varGaps()
		// (a) layout
		for lii, li := range layoutInserts {
			all := map[int]string{}
			for gi := 0; gi <= len(lx.toks); gi++ {
				if li.newline && inVar[gi] {
					continue
				}
				all[gi] = li.text
				if it.single && lii < 6 { // the comment-shape inserts go into all gaps at once only
					check("layout-"+li.name, fmt.Sprintf("gap %d", gi), lx.rebuild(map[int]string{gi: li.text}, nil), nil)
				}
			}
			check("layout-"+li.name, "all gaps", lx.rebuild(all, nil), nil)
		}
		// compact layout: no blank at all between two tokens wherever the documented lexer still
		// reads the same two tokens (the original is then "the compact text with blanks inserted")
		{
			var sb strings.Builder
			for ti, t := range lx.toks {
				if ti > 0 {
					prev := lx.toks[ti-1]
					pair, errs := model.Lex(prev.Lexeme + t.Lexeme)
					if len(errs) != 0 || len(pair) != 3 || pair[0].Lexeme != prev.Lexeme || pair[0].Kind != prev.Kind || pair[1].Lexeme != t.Lexeme || pair[1].Kind != t.Kind {
						sb.WriteByte(' ')
					}
				}
				sb.WriteString(t.Lexeme)
			}
			compact := sb.String()
			ct, cerrs := model.Lex(compact)
			same := len(cerrs) == 0 && len(ct) == len(lx.toks)+1
			for ti := 0; same && ti < len(lx.toks); ti++ {
				if ct[ti].Kind != lx.toks[ti].Kind || ct[ti].Lexeme != lx.toks[ti].Lexeme {
					same = false
				}
			}
			if same {
				check("layout-compact", "all blanks and comments removed", compact, nil)
			} else {
				c.Skip("compact rendering changes the documented tokenisation")
			}
		}
		// mixed layout: a different insert in every gap
		mixed := map[int]string{}
		for gi := 0; gi <= len(lx.toks); gi++ {
			li := layoutInserts[(gi*7+ci)%len(layoutInserts)]
			if li.newline && inVar[gi] {
				li = layoutInserts[gi%3]
			}
			mixed[gi] = li.text
		}
		check("layout-mixed", "all gaps, mixed", lx.rebuild(mixed, nil), nil)
		// (b) digit scripts
		for v := 0; v < 3; v++ {
			all := map[int]string{}
			for ti, t := range lx.toks {
				if t.Kind == "NUMBER" {
					nv := digitVariants(t.Lexeme)[v]
					all[ti] = nv
					if it.single && nv != t.Lexeme {
						check("digits", fmt.Sprintf("token %d", ti), lx.rebuild(nil, map[int]string{ti: nv}), nil)
					}
				}
			}
			if len(all) > 0 {
				check("digits", fmt.Sprintf("all literals, script %d", v), lx.rebuild(nil, all), nil)
			}
		}
		// (c) logical operator spellings
		swap := map[string]string{"&&": " " + model.KwAnd + " ", "||": " " + model.KwOr + " ", model.KwAnd: " && ", model.KwOr: " || "}
		all := map[int]string{}
		for ti, t := range lx.toks {
			if t.Kind == "LOGICAL_AND" || t.Kind == "LOGICAL_OR" {
				all[ti] = swap[t.Lexeme]
				if it.single {
					check("logical-spelling", fmt.Sprintf("token %d", ti), lx.rebuild(nil, map[int]string{ti: swap[t.Lexeme]}), nil)
				}
			}
		}
		if len(all) > 0 {
			check("logical-spelling", "all operators", lx.rebuild(nil, all), nil)
		}
		// (d) renaming
		ids := lx.userIdentifiers()
		if len(ids) > 0 {
			for _, sc := range renameSchemes {
				repl := map[int]string{}
				un := map[string]string{}
				for ti, name := range ids {
					repl[ti] = sc.f(name)
					un[sc.f(name)] = name
				}
				check("rename-"+sc.name, "all user identifiers", lx.rebuild(nil, repl), un)
			}
		}
		// distinct identifiers renamed to canonically equivalent but distinct spellings stay distinct
		if len(ids) > 1 {
			names := map[string]bool{}
			for _, nme := range ids {
				names[nme] = true
			}
			var sorted []string
			for nme := range names {
				sorted = append(sorted, nme)
			}
			sort.Strings(sorted)
			newName := map[string]string{}
			for i, nme := range sorted {
				tail := "\u09DF"
				if i%2 == 1 {
					tail = "\u09AF\u09BC"
				}
				newName[nme] = fmt.Sprintf("\u09A8\u09BE\u09AE%d%s", i/2, tail)
			}
			repl := map[int]string{}
			un := map[string]string{}
			for ti, nme := range ids {
				repl[ti] = newName[nme]
			}
			// undo the renaming in the output: the longer (decomposed) spellings first
			tsrc := lx.rebuild(nil, repl)
			got, o, _ := c18Run(c, tsrc, it.stdin)
			var news []string
			for nme, nw := range newName {
				un[nw] = nme
				news = append(news, nw)
			}
			sort.Slice(news, func(i, j int) bool { return len(news[i]) > len(news[j]) })
			for _, nw := range news {
				// printing goes through NFC: undo on the normalised spelling as well
				for _, form := range []string{nw, normNFC(nw)} {
					got.stdout = strings.ReplaceAll(got.stdout, form, un[nw])
					got.diag = strings.ReplaceAll(got.diag, form, un[nw])
				}
			}
			c.Count("transformed_rename-equivalent-pairs")
			// names that normalise to the same text cannot be told apart in NFC output: compare only when unambiguous
			ambiguous := false
			for i := 0; i+1 < len(sorted); i += 2 {
				if strings.Contains(ref.stdout+ref.diag, sorted[i]) || strings.Contains(ref.stdout+ref.diag, sorted[i+1]) {
					ambiguous = true
				}
			}
			if !ambiguous && got != ref {
				report(it, "rename-equivalent-pairs", "all user identifiers", tsrc, ref, got, o)
			}
		}
		// (e), (f): tree level
		prog, err := model.ParseSource(it.src)
		if err != nil {
			c.Skip("corpus program the ladder parser does not read")
			continue
		}
		base := model.Render(cloneProg(prog))
		refT, _, _ := c18Run(c, base, it.stdin)
		if refT != ref {
			// rendering from the tree changed layout only: covered by (a); use the rendered text as its own reference
			c.Count("rerendered_reference_differs")
		}
		checkT := func(fam, how string, tp []*model.N) {
			tsrc := model.Render(tp)
			got, o, _ := c18Run(c, tsrc, it.stdin)
			c.Count("transformed_" + fam)
			if got != refT {
				it2 := it
				it2.src = base
				report(it2, fam, how, tsrc, refT, got, o)
			}
		}
		// all sites at once
		allp := cloneProg(prog)
		var sites []**model.N
		for _, s := range allp {
			exprSites(s, &sites)
		}
		for _, sp := range sites {
			*sp = model.Grp(*sp)
		}
		checkT("parentheses", "every sub-expression", allp)
		if it.single {
			np := cloneProg(prog)
			var ss []**model.N
			for _, s := range np {
				exprSites(s, &ss)
			}
			for si := range ss {
				one := cloneProg(prog)
				var s1 []**model.N
				for _, s := range one {
					exprSites(s, &s1)
				}
				*s1[si] = model.Grp(model.Grp(*s1[si]))
				checkT("parentheses", fmt.Sprintf("site %d", si), one)
			}
		}
		// dead code at every statement boundary
		dp := cloneProg(prog)
		var lists []*[]*model.N
		stmtLists(&dp, &lists)
		k := 0
		for _, lp := range lists {
			var nl []*model.N
			for _, s := range *lp {
				k++
				nl = append(nl, deadCode(k)[k%6])
				nl = append(nl, s)
			}
			k++
			nl = append(nl, deadCode(k)...)
			*lp = nl
		}
		checkT("dead-code", "every statement boundary", dp)
		{
			// unreachable tails: after every unconditional jump of every statement list (all at once, and
			// each form of tail alone)
			for form := -1; form < 4; form++ {
				tp := cloneProg(prog)
				var tl []*[]*model.N
				stmtLists(&tp, &tl)
				n := 0
				for _, lp := range tl {
					var nl []*model.N
					for _, s := range *lp {
						nl = append(nl, s)
						if s != nil && (s.K == "break" || s.K == "continue" || s.K == "return") {
							n++
							if form < 0 {
								nl = append(nl, unreachableTail(n)...)
							} else {
								nl = append(nl, unreachableTail(n)[form])
							}
						}
					}
					*lp = nl
				}
				if n > 0 {
					checkT("dead-code", fmt.Sprintf("unreachable tail (form %d) after every jump", form), tp)
				}
			}
		}
		if it.single {
			cnt := 0
			tmp := cloneProg(prog)
			var ls []*[]*model.N
			stmtLists(&tmp, &ls)
			for _, lp := range ls {
				cnt += len(*lp) + 1
			}
			for site := 0; site < cnt; site++ {
				one := cloneProg(prog)
				var l1 []*[]*model.N
				stmtLists(&one, &l1)
				pos := site
				for _, lp := range l1 {
					if pos <= len(*lp) {
						nl := append([]*model.N{}, (*lp)[:pos]...)
						nl = append(nl, deadCode(site)...)
						nl = append(nl, (*lp)[pos:]...)
						*lp = nl
						break
					}
					pos -= len(*lp) + 1
				}
				checkT("dead-code", fmt.Sprintf("boundary %d", site), one)
			}
		}
	}
	c18StaticFaults(c)
	c18PredefinedNames(c)
	c.Sample(map[string]string{"original": model.KwPrint + " 1 && 2;", "transformed": model.KwPrint + " /*c*/ ১ " + model.KwAnd + " //c\n (২) ;"})
}

// c18StaticFaults: texts with one to three lexical / syntax faults (every sequence of up to three
// statements over a pool of well-formed and faulty ones, none a ধরি declaration), each written in seven
// layouts (one line; one piece per line; tabs; block comments; line comments; CRLF; two pieces per line):
// stdout, status and the whole list of diagnostics, line numbers aside, must not depend on the layout.
func c18StaticFaults(c *fw.Ctx) {
	P := model.KwPrint
	pool := [][]string{
		{P, "1", ";"},
		{P, "1", "#", "2", ";"},
		{P, "1"},
		{P, ";"},
		{")", ";"},
		{"a", "=", ";"},
		{"@"},
		{"{", P, "2", ";"},
		{model.KwIf, "(", "1", P, "3", ";"},
		{P, "\"s\"", "+", ";"},
		{"}", P, "4", ";"},
	}
	layouts := []struct {
		name string
		sep  func(i int) string
	}{
		{"one-line", func(i int) string { return " " }},
		{"piece-per-line", func(i int) string { return "\n" }},
		{"tabs", func(i int) string { return "\t" }},
		{"block-comments", func(i int) string { return " /* c */ " }},
		{"line-comments", func(i int) string { return " // c\n" }},
		{"crlf", func(i int) string { return "\r\n" }},
		{"two-per-line", func(i int) string {
			if i%2 == 1 {
				return "\n"
			}
			return " "
		}},
	}
	c.Bound("static_fault_statement_pool", len(pool))
	mask := func(s string) string { return lineTag.ReplaceAllString(s, "[line _]") }
	for n := 1; n <= 3; n++ {
		idx := make([]int, n)
		for {
			if c.Mine() {
				var pieces []string
				for _, i := range idx {
					pieces = append(pieces, pool[i]...)
				}
				var refSrc, refKey string
				for li, lay := range layouts {
					var sb strings.Builder
					for pi, pc := range pieces {
						if pi > 0 {
							sb.WriteString(lay.sep(pi))
						}
						sb.WriteString(pc)
					}
					sb.WriteString("\n")
					src := sb.String()
					o := h.RunFile(src, h.Opts{Fuel: 300000})
					c.Eval(src, true)
					c.Count("static_fault_layout_runs")
					base := fw.Replay{Mode: "file", Program: src, CLI: true, InStdout: o.Stdout, InStderr: o.Stderr, InStatus: o.Status}
					if abnormal(c, o, "file", src, base) {
						continue
					}
					key := fmt.Sprintf("status %d stdout %q diagnostics %q", o.Status, o.Stdout, mask(o.Stderr))
					c.Outcome(key)
					if li == 0 {
						refSrc, refKey = src, key
						continue
					}
					if key != refKey {
						r := base
						r.Sig = "C18|layout-" + lay.name + "|static-faults"
						r.Related = []string{refSrc}
						r.What = "a text with lexical / syntax faults is diagnosed differently when only its layout changes"
						r.Expected, r.Observed = "as on one line: "+trunc(refKey, 400), trunc(key, 400)
						c.Violate(r)
					}
				}
			}
			k := n - 1
			for k >= 0 {
				idx[k]++
				if idx[k] < len(pool) {
					break
				}
				idx[k] = 0
				k--
			}
			if k < 0 {
				break
			}
		}
	}
}

// c18PredefinedNames: (d) for the names the implementation itself binds before a program starts. Every
// such name (observed: the bindings made in the parent-less scope while an empty program runs) that a
// program may declare is a legal target of a renaming; a program that uses an undeclared name -- reads
// it, assigns it, calls it, reads it inside a function, shadows it in a block and reads it afterwards --
// must behave alike under the fresh spelling and under that name. The documented built-ins are reserved
// and checked elsewhere; what is compared here is every other predefined name.
func c18PredefinedNames(c *fw.Ctx) {
	if c.Shard != 0 {
		return
	}
	names := h.GlobalNames()
	c.Bound("predefined_names_observed", len(names))
	if len(names) == 0 {
		c.Skip("no program-level binding observed for an empty program")
		return
	}
	fresh := "zq_fresh"
	uses := []struct{ name, tmpl string }{
		{"read", model.KwPrint + " \"before\";\n" + model.KwPrint + " X;\n" + model.KwPrint + " \"after\";\n"},
		{"assign", model.KwPrint + " \"before\";\nX = 1;\n" + model.KwPrint + " X;\n"},
		{"call", model.KwPrint + " \"before\";\n" + model.KwPrint + " X(\"1\");\n" + model.KwPrint + " \"after\";\n"},
		{"read-in-function", model.KwFun + " f() { " + model.KwReturn + " X; }\n" + model.KwPrint + " \"before\";\n" + model.KwPrint + " f();\n"},
		{"shadow-then-read", "{ " + model.KwVar + " X = 1; " + model.KwPrint + " X; }\n" + model.KwPrint + " X;\n"},
		{"declare", model.KwVar + " X = 1;\n" + model.KwPrint + " X;\n"},
		{"parameter", model.KwFun + " f(X) { " + model.KwReturn + " X; }\n" + model.KwPrint + " f(2);\n" + model.KwPrint + " X;\n"},
	}
	for _, g := range names {
		if model.IsBuiltin(g) {
			continue
		}
		c.Count("predefined_names_not_documented")
		// may a program declare it?
		d, _, _ := c18Run(c, model.KwVar+" "+g+" = 1;\n", "")
		if d.status == 65 {
			c.Count("predefined_names_reserved")
			continue
		}
		for _, u := range uses {
			ref, _, _ := c18Run(c, strings.ReplaceAll(u.tmpl, "X", fresh), "")
			tsrc := strings.ReplaceAll(u.tmpl, "X", g)
			got, o, _ := c18Run(c, tsrc, "")
			c.R.States++
			c.R.Transitions++
			refDiag := diagMessage(ref.diag, fresh)
			gotDiag := diagMessage(got.diag, g)
			if ref.stdout != got.stdout || ref.status != got.status || refDiag != gotDiag {
				r := fw.Replay{Mode: "file", Program: tsrc, CLI: true, InStdout: o.Stdout, InStderr: o.Stderr, InStatus: o.Status}
				r.Sig = "C18|rename-to-predefined-name|" + u.name
				r.What = "a user identifier consistently renamed to a declarable name that the implementation predefines: " + g
				r.Expected = fmt.Sprintf("as with the spelling %s: status %d stdout %q diagnostic %q", fresh, ref.status, trunc(ref.stdout, 200), refDiag)
				r.Observed = fmt.Sprintf("status %d stdout %q diagnostic %q", got.status, trunc(got.stdout, 200), gotDiag)
				c.Violate(r)
			}
		}
	}
}

package checks

import (
	"context"
	"fmt"
	"os"
	"os/exec"
	"path/filepath"
	"sort"
	"strings"
	"time"

	"verif/internal/fw"
	"verif/internal/h"
	"verif/internal/model"
)

func init() { Registry["C13"] = C13 }

// oneOutcome runs src under every schedule (unbounded for <=3 choice points,
// else <=2 deviations) and two clock instants and requires a single outcome.
func oneOutcome(c *fw.Ctx, src, stdin, sig string) {
	type oc struct {
		key    string
		prefix []int
		clock  int64
	}
	var first *oc
	probe := h.RunFile(src, h.Opts{Stdin: stdin, StdinMode: 1})
	bound := -1
	if len(probe.Points) > 3 {
		bound = 2
		c.Count("programs_with_deviation_bound_2")
	}
	if len(probe.Points) > 0 {
		c.Count("programs_with_choice_points")
	}
	for _, clock := range []int64{1700000000_123000000, 1893456000_999000000} {
		n, _ := exploreChoices(c, func(prefix []int) h.Outcome {
			return h.RunFile(src, h.Opts{Stdin: stdin, StdinMode: 1, Prefix: prefix, ClockNanos: clock, Fuel: 3_000_000})
		}, bound, func(prefix []int, o h.Outcome) {
			c.Eval(fmt.Sprint(clock, prefix)+src, true)
			base := fw.Replay{Mode: "file", Program: src, Stdin: stdin, Choices: append([]int{}, prefix...), CLI: len(prefix) == 0, InStdout: o.Stdout, InStderr: o.Stderr, InStatus: o.Status}
			if abnormal(c, o, "file", src, base) {
				return
			}
			key := fmt.Sprintf("%d\x00%s\x00%s", o.Status, o.Stdout, o.FirstDiag())
			c.Outcome(key)
			if first == nil {
				first = &oc{key, append([]int{}, prefix...), clock}
				return
			}
			if key != first.key {
				r := base
				r.Sig = "C13|outcome-differs|" + sig
				r.What = "two executions of the same program on the same input differ"
				r.Expected = fmt.Sprintf("schedule %v clock %d: %q", first.prefix, first.clock, trunc(first.key, 300))
				r.Observed = fmt.Sprintf("schedule %v clock %d: %q", prefix, clock, trunc(key, 300))
				c.Violate(r)
			}
		})
		c.Add("schedules", int64(n))
		c.R.States += int64(n)
		c.R.Transitions += int64(n)
	}
	// memory layout: the default schedule again with complete garbage collections forced at evenly
	// spaced points of the execution (about 16), so that the memory of dead values is
	// handed out again as early as it can be
	if first != nil && !probe.Diverged && probe.Panic == "" {
		for _, parts := range []int64{16} {
			every := probe.FuelSpent / parts
			if every < 1 {
				every = 1
			}
			o := h.RunFile(src, h.Opts{Stdin: stdin, StdinMode: 1, GCEvery: every, Fuel: 3_000_000})
			c.Eval(fmt.Sprint("gc", every)+src, true)
			c.Add("executions_with_forced_collections", 1)
			c.Add("forced_collections", o.GCRuns)
			c.R.States++
			c.R.Transitions++
			base := fw.Replay{Mode: "file", Program: src, Stdin: stdin, CLI: false, InStdout: o.Stdout, InStderr: o.Stderr, InStatus: o.Status}
			if abnormal(c, o, "file", src, base) {
				continue
			}
			key := fmt.Sprintf("%d\x00%s\x00%s", o.Status, o.Stdout, o.FirstDiag())
			c.Outcome(key)
			if key != first.key {
				r := base
				r.Sig = "C13|outcome-differs-with-memory-layout|" + sig
				r.What = "the same program on the same input differs when garbage collections happen at other points (memory of dead values reused earlier)"
				r.Expected = fmt.Sprintf("no forced collection: %q", trunc(first.key, 300))
				r.Observed = fmt.Sprintf("a complete collection every %d fuel points (%d collections): %q", every, o.GCRuns, trunc(key, 300))
				c.Violate(r)
			}
		}
	}
}

func permutations(n int) [][]int {
	if n == 0 {
		return [][]int{{}}
	}
	var out [][]int
	for _, p := range permutations(n - 1) {
		for i := 0; i <= len(p); i++ {
			q := append(append(append([]int{}, p[:i]...), n-1), p[i:]...)
			out = append(out, q)
		}
	}
	return out
}

func C13(c *fw.Ctx) {
	c.R.Rule = "programs that meet iteration-order choice points (object literals with side-effecting initialisers in every source order, key/value listings of objects built by literals, writes and deletes, diagnostics quoting an object literal, the object histories of C12, the shipped examples without their ক্লক line) x every schedule (unbounded for <=3 choice points, else <=2 deviations) x two clock instants: one outcome (stdout, status, first diagnostic); plus repeated fresh uninstrumented processes (supplementary); distinct by (clock, schedule, text)"
	keys := []string{"ka", "k\u09DF", "kc", "k\u09AF\u09BC", "ke", "e\u0301", "\u00e9"}
	keys = []string{keys[0], keys[1], keys[3], keys[5], keys[6], keys[2]}
	// A: literals with probes, every source order; model-checked under every schedule
	maxK := 4
	for n := 1; n <= maxK; n++ {
		for _, perm := range permutations(n) {
			if !c.Mine() {
				continue
			}
			var ks []string
			var vs []*model.N
			for i, p := range perm {
				ks = append(ks, keys[p])
				vs = append(vs, model.CallN("p", model.Str(fmt.Sprintf("T%d", i+1)), model.Num(float64(i+1))))
			}
			prog := append(c14Prelude(), model.Var("ob2", model.Obj(ks, vs)), model.Print(model.Id("ob2")),
				model.Print(model.CallN(model.BiKeys, model.Id("ob2"))), model.Print(model.CallN(model.BiValues, model.Id("ob2"))),
				model.Print(model.CallN(model.BiKeys, model.Id("ob2"))), model.Print(model.CallN(model.BiValues, model.Id("ob2"))))
			judgeAllSchedules(c, prog, fmt.Sprintf("literal-%d", n))
			oneOutcome(c, model.Render(parenAll(prog)), "", fmt.Sprintf("literal-%d", n))
		}
	}
	// A2: the same with property names that are names of built-ins, or differ only in digit script,
	// leading zeros or canonical form (whatever the interpreter makes of such a literal, it must make
	// the same of it every time)
	for _, pool := range [][]string{{model.BiLen, model.BiInputLatin, model.BiAppend, model.BiMax}, {"k1", "k01", "k\u09e7", "K1"}, {"k\u09DF", "k\u09AF\u09BC", "e\u0301", "\u00e9"}} {
		for n := 1; n <= 4; n++ {
			for pi, perm := range permutations(n) {
				if n == 4 && pi%7 != 0 && c.Quick() {
					continue // quick: four of the 24 orders of four names
				}
				if !c.Mine() {
					continue
				}
				var ks []string
				var vs []*model.N
				for i, p := range perm {
					ks = append(ks, pool[p])
					vs = append(vs, model.CallN("p", model.Str(fmt.Sprintf("T%d", i+1)), model.Num(float64(i+1))))
				}
				prog := append(c14Prelude(), model.Var("ob2", model.Obj(ks, vs)), model.Print(model.Id("ob2")),
					model.Print(model.CallN(model.BiKeys, model.Id("ob2"))), model.Print(model.CallN(model.BiValues, model.Id("ob2"))),
					model.Print(model.Prop(model.Id("ob2"), "zz")))
				oneOutcome(c, model.Render(parenAll(prog)), "", fmt.Sprintf("literal-special-names-%d", n))
			}
		}
	}
	// A3: every built-in handed an object (several properties whose values are equal under == but not
	// identical -- both zeros -- a NaN, numbers, a text) alone, first and last: whatever it answers, it
	// answers the same under every iteration order
	for _, b := range model.Builtins {
		for form := 0; form < 3; form++ {
			if !c.Mine() {
				continue
			}
			ob := func() *model.N {
				return model.Obj([]string{"pz", "nz", "nn", "five", "tx"}, []*model.N{model.Num(0), model.Un("-", model.Num(0)),
					model.Grp(model.Bin("-", model.Grp(model.Bin("**", model.Num(10), model.Num(400))), model.Grp(model.Bin("**", model.Num(10), model.Num(400))))), model.Num(5), model.Str("t")})
			}
			small := func() *model.N {
				return model.Obj([]string{"pz", "nz"}, []*model.N{model.Num(0), model.Un("-", model.Num(0))})
			}
			var calls []*model.N
			switch form {
			case 0:
				calls = []*model.N{model.CallN(b, ob()), model.CallN(b, small())}
			case 1:
				calls = []*model.N{model.CallN(b, ob(), model.Num(1)), model.CallN(b, small(), model.Str("pz"))}
			case 2:
				calls = []*model.N{model.CallN(b, model.Num(1), ob()), model.CallN(b, model.Arr(model.Num(1)), small())}
			}
			for _, call := range calls {
				prog := []*model.N{T("before"), model.Print(call), T("after")}
				oneOutcome(c, model.Render(parenAll(prog)), "line\n", "builtin-on-object|"+b)
			}
		}
	}
	// A4: a fault that names something missing, with several equally similar names around it (variables
	// of one scope, properties of one object, parameters): whatever the diagnostic says, it says the same
	// every time
	{
		V, P, F := model.KwVar, model.KwPrint, model.KwFun
		decl := V + " total1 = 1; " + V + " total2 = 2; " + V + " total3 = 3; " + V + " total4 = 4;\n"
		obj := V + " o = {count1: 1, count2: 2, count3: 3, count4: 4};\n"
		bigKeys := ""
		for i := 1; i <= 20; i++ {
			bigKeys += fmt.Sprintf("item%d: %d, ", i, i)
		}
		obj += V + " big = {" + strings.TrimSuffix(bigKeys, ", ") + "};\n" + V + " nine = {p1: 1, p2: 2, p3: 3, p4: 4, p5: 5, p6: 6, p7: 7, p8: 8, p9: 9};\n"
		faults := []string{
			P + " total5;\n", "total5 = 1;\n", "total5();\n", P + " total;\n", P + " totl1;\n",
			P + " o.count5;\n", "o.count5.x = 1;\n", model.BiDelete + "(o, \"count5\");\n", P + " o.count;\n", P + " o.cuont1;\n",
			P + " big.item21;\n", P + " big.zz;\n", model.BiDelete + "(big, \"item0\");\n", "big.zz.k = 1;\n", P + " nine.p10;\n", model.BiDelete + "(nine, \"q\");\n",
			F + " f(arg1, arg2, arg3, arg4) { " + P + " arg5; }\nf(1, 2, 3, 4);\n",
			"{ " + V + " inner1 = 1; " + V + " inner2 = 2; { " + P + " inner3; } }\n",
			P + " " + model.BiLen + "1([1]);\n", P + " " + model.BiMax + "x(1, 2);\n",
		}
		for _, f := range faults {
			for layout := 0; layout < 2; layout++ {
				if !c.Mine() {
					continue
				}
				src := decl + obj + P + " \"before\";\n" + f + P + " \"after\";\n"
				if layout == 1 {
					src = F + " wrap() {\n" + decl + obj + f + "}\nwrap();\n"
				}
				oneOutcome(c, src, "", "similar-names-around-a-fault")
			}
		}
	}
	// B: objects built by writes in every order, then deletes
	for n := 1; n <= 4; n++ {
		for _, perm := range permutations(n) {
			if !c.Mine() {
				continue
			}
			prog := []*model.N{model.Var("ob", model.Obj(nil, nil))}
			for i, p := range perm {
				prog = append(prog, model.ExprS(model.PAsg(model.Id("ob"), keys[p], model.Num(float64(10*(i+1))))))
			}
			list := []*model.N{model.Print(model.Id("ob")), model.Print(model.CallN(model.BiKeys, model.Id("ob"))), model.Print(model.CallN(model.BiValues, model.Id("ob")))}
			prog = append(prog, list...)
			prog = append(prog, list...)
			if n > 1 {
				prog = append(prog, model.ExprS(model.CallN(model.BiDelete, model.Id("ob"), model.Str(keys[perm[0]]))))
				prog = append(prog, list...)
			}
			oneOutcome(c, model.Render(parenAll(prog)), "", fmt.Sprintf("writes-%d", n))
		}
	}
	// B2: function values reached by every route (the outer name, the function's own name inside its body,
	// a parameter, a closure variable, an element, a property, a call result, a built-in) shown in every way
	// (printed alone, inside an array, inside an object, joined to a text, in a diagnostic that quotes an
	// expression, compared): as a script and as prompt lines
	{
		id := model.Id
		routes := []struct {
			name string
			pre  func() []*model.N
			val  func() *model.N
		}{
			{"outer-name", func() []*model.N { return []*model.N{model.Fun("f", nil, model.Return(model.Num(1)))} }, func() *model.N { return id("f") }},
			{"own-name-returned", func() []*model.N { return []*model.N{model.Fun("f", nil, model.Return(id("f")))} }, func() *model.N { return model.CallN("f") }},
			{"own-name-nested", func() []*model.N {
				return []*model.N{model.Fun("f", []string{"n"}, model.If(model.Bin(">", id("n"), model.Num(0)), model.Block(model.Return(model.CallN("f", model.Bin("-", id("n"), model.Num(1))))), nil), model.Return(id("f")))}
			}, func() *model.N { return model.CallN("f", model.Num(2)) }},
			{"parameter", func() []*model.N { return []*model.N{model.Fun("g", nil), model.Fun("f", []string{"p"}, model.Return(id("p")))} }, func() *model.N { return model.CallN("f", id("g")) }},
			{"closure-variable", func() []*model.N {
				return []*model.N{model.Fun("mk", nil, model.Fun("inner", nil, model.Return(id("inner"))), model.Return(id("inner")))}
			}, func() *model.N { return model.Call(model.CallN("mk")) }},
			{"element", func() []*model.N { return []*model.N{model.Fun("f", nil), model.Var("fs", model.Arr(id("f")))} }, func() *model.N { return model.Idx(id("fs"), model.Num(0)) }},
			{"property", func() []*model.N { return []*model.N{model.Fun("f", nil), model.Var("fo", model.Obj([]string{"m"}, []*model.N{id("f")}))} }, func() *model.N { return model.Prop(id("fo"), "m") }},
			{"built-in", func() []*model.N { return nil }, func() *model.N { return id(model.BiLen) }},
			{"built-in-through-function", func() []*model.N { return []*model.N{model.Fun("f", []string{"p"}, model.Return(id("p")))} }, func() *model.N { return model.CallN("f", id(model.BiMax)) }},
		}
		shows := []struct {
			name string
			mk   func(v *model.N) *model.N
		}{
			{"print", func(v *model.N) *model.N { return model.Print(v) }},
			{"print-in-array", func(v *model.N) *model.N { return model.Print(model.Arr(v, model.Num(1))) }},
			{"print-in-object", func(v *model.N) *model.N { return model.Print(model.Obj([]string{"k"}, []*model.N{v})) }},
			{"joined-to-text", func(v *model.N) *model.N { return model.Print(model.Bin("+", model.Str("<"), v)) }},
			{"missing-property", func(v *model.N) *model.N { return model.Print(model.Prop(v, "zz")) }},
			{"minus", func(v *model.N) *model.N { return model.Print(model.Un("-", v)) }},
			{"equals-itself", func(v *model.N) *model.N { return model.Print(model.Bin("==", v, v)) }},
			{"echo", func(v *model.N) *model.N { return model.ExprS(v) }},
		}
		for _, rt := range routes {
			for _, sh := range shows {
				if !c.Mine() {
					continue
				}
				prog := append(rt.pre(), sh.mk(rt.val()), sh.mk(rt.val()))
				oneOutcome(c, model.Render(parenAll(prog)), "", "function-value-shown|"+rt.name+"|"+sh.name)
				// the same as one prompt line, three times in one session and in a second session
				line := strings.TrimRight(model.RenderOneLine(parenAll(prog)), "\n")
				var keys []string
				for rep := 0; rep < 2; rep++ {
					o := h.RunRepl(line+"\n"+line+"\n"+line+"\n", h.Opts{Fuel: 3_000_000})
					c.Eval(fmt.Sprint("repl", rep)+line, true)
					base := fw.Replay{Mode: "repl", Program: line + "\n" + line + "\n" + line + "\n", CLI: true, InStdout: o.Stdout, InStderr: o.Stderr, InStatus: o.Status}
					if abnormal(c, o, "repl", line, base) {
						break
					}
					parts, ok := splitPrompts(o.Stdout)
					if !ok || len(parts) != 4 || parts[0] != parts[1] || parts[1] != parts[2] {
						r := base
						r.Sig = "C13|outcome-differs|function-value-shown|same-line-three-times"
						r.What = "the same line typed three times in one session is answered differently"
						r.Expected = "three identical answers"
						r.Observed = fmt.Sprintf("stdout %q", trunc(o.Stdout, 300))
						c.Violate(r)
						break
					}
					keys = append(keys, o.Stdout+"\x00"+o.Stderr)
				}
				if len(keys) == 2 && keys[0] != keys[1] {
					c.Violate(fw.Replay{Sig: "C13|outcome-differs|function-value-shown|two-sessions", What: "the same session run twice differs", Mode: "repl", Program: line + "\n" + line + "\n" + line + "\n", CLI: true,
						Expected: trunc(keys[0], 300), Observed: trunc(keys[1], 300)})
				}
			}
		}
	}
	// C: diagnostics that quote an object literal
	for n := 1; n <= 4; n++ {
		for _, perm := range permutations(n) {
			if !c.Mine() {
				continue
			}
			var ks []string
			var vs []*model.N
			for i, p := range perm {
				ks = append(ks, keys[p])
				vs = append(vs, model.Num(float64(i)))
			}
			prog := []*model.N{T("before"), model.Print(model.Prop(model.Obj(ks, vs), "zz")), T("after")}
			oneOutcome(c, model.Render(parenAll(prog)), "", "diagnostic-quoting-literal")
			prog2 := []*model.N{model.Print(model.Prop(model.Prop(model.Obj([]string{"w"}, []*model.N{model.Obj(ks, vs)}), "w"), "zz"))}
			oneOutcome(c, model.Render(parenAll(prog2)), "", "diagnostic-quoting-literal")
		}
	}
	// C2: object literals several of whose initialisers fail: the first diagnostic is that of the first one in source order
	failing := []func() *model.N{
		func() *model.N { return model.Bin("/", model.Num(1), model.Num(0)) },
		func() *model.N { return model.Un("-", model.Str("s")) },
		func() *model.N { return model.Bin("<<", model.Num(1), model.Un("-", model.Num(1))) },
		func() *model.N { return model.Un("~", model.Num(1.5)) },
	}
	for n := 2; n <= 4; n++ {
		for _, perm := range permutations(n) {
			for okFirst := 0; okFirst < 2; okFirst++ {
				if !c.Mine() {
					continue
				}
				var ks []string
				var vs []*model.N
				if okFirst == 1 {
					ks, vs = append(ks, "kz"), append(vs, model.Num(7))
				}
				for i, p := range perm {
					ks = append(ks, keys[i%len(keys)])
					vs = append(vs, failing[p]())
				}
				prog := []*model.N{T("before"), model.Var("tbl", model.Obj(ks, vs)), T("after")}
				judgeAllSchedules(c, prog, "failing-initialisers")
				oneOutcome(c, model.Render(parenAll(prog)), "", "failing-initialisers")
			}
		}
	}
	// D: the object histories of C12 (depth <= 2)
	ops := objOps(false)
	for i := range ops {
		for j := -1; j < len(ops); j++ {
			if !c.Mine() {
				continue
			}
			hist := []int{i}
			if j >= 0 {
				if c.Quick() && j%4 != i%4 {
					continue
				}
				hist = append(hist, j)
			}
			oneOutcome(c, model.Render(parenAll(objProgram(hist, ops))), "", "object-history")
		}
	}
	// E: shipped examples
	files, _ := filepath.Glob("/repo/example/*.bn")
	sort.Strings(files)
	var examples []string
	for _, f := range files {
		b, err := os.ReadFile(f)
		if err != nil {
			continue
		}
		var keep []string
		for _, l := range strings.Split(string(b), "\n") {
			if strings.Contains(l, model.BiClock+"(") {
				continue
			}
			keep = append(keep, l)
		}
		examples = append(examples, strings.Join(keep, "\n"))
		if c.Mine() {
			oneOutcome(c, strings.Join(keep, "\n"), "abc def\nsecond\n", "example|"+filepath.Base(f))
		}
	}
	c.Bound("examples", len(files))
	// H: object churn: a loop that builds, lists / prints and drops objects of alternating shapes (same
	// property counts, different names), every choice of two shapes from a pool, three observation forms
	{
		shapes := [][]string{{"a", "b"}, {"c", "d"}, {"a", "d"}, {"b", "c", "e"}, {"x", "y", "z"}, {"a"}, {"q"}}
		obsForms := []string{"keys", "values", "print", "keys-values"}
		for i, s1 := range shapes {
			for j, s2 := range shapes {
				if i == j || len(s1) != len(s2) {
					continue
				}
				for _, of := range obsForms {
					for _, hold := range []bool{false, true} {
						if !c.Mine() {
							continue
						}
						lit := func(ks []string, base int) string {
							var parts []string
							for k, n := range ks {
								parts = append(parts, fmt.Sprintf("%s: i * 10 + %d", n, base+k))
							}
							return "{" + strings.Join(parts, ", ") + "}"
						}
						obs := map[string]string{
							"keys":        model.KwPrint + " " + model.BiKeys + "(o);",
							"values":      model.KwPrint + " " + model.BiValues + "(o);",
							"print":       model.KwPrint + " o;",
							"keys-values": model.KwPrint + " " + model.BiKeys + "(o); " + model.KwPrint + " " + model.BiValues + "(o); " + model.KwPrint + " o;",
						}[of]
						var sb strings.Builder
						if hold {
							sb.WriteString(model.KwVar + " kept = [];\n")
						}
						sb.WriteString(model.KwFor + " (" + model.KwVar + " i = 0; i < 8; i = i + 1) {\n")
						sb.WriteString("  " + model.KwVar + " o = " + lit(s1, 1) + ";\n")
						sb.WriteString("  " + model.KwIf + " (i % 2 == 1) { o = " + lit(s2, 5) + "; }\n")
						sb.WriteString("  " + obs + "\n")
						if hold {
							sb.WriteString("  " + model.KwIf + " (i == 2) { kept = " + model.BiAppend + "(kept, o); }\n")
						}
						sb.WriteString("}\n")
						if hold {
							sb.WriteString(model.KwPrint + " kept;\n")
						}
						oneOutcome(c, sb.String(), "", "object-churn|"+of)
					}
				}
			}
		}
	}
	// G: programs that read their input through either name of the input built-in, in every sequence
	// of up to three reads, on every input of a small pool: one outcome whatever sizes the reads of
	// stdin are answered with (three default answers, up to two deviating reads each)
	{
		readers := []string{model.BiInput, model.BiInputLatin}
		inputs := []string{"x\ny\nz\n", "x\ny", "x\n", "", "\n\n", "x\r\ny\r\nz", "one two\n\nthree\n"}
		for n := 1; n <= 3; n++ {
			for code := 0; code < 1<<uint(n); code++ {
				for prompt := 0; prompt < 2; prompt++ {
					var sb strings.Builder
					for k := 0; k < n; k++ {
						arg := ""
						if prompt == 1 {
							arg = "\"?\""
						}
						fmt.Fprintf(&sb, "%s \"r%d=\" + %s(%s);\n", model.KwPrint, k, readers[(code>>uint(k))&1], arg)
					}
					sb.WriteString(model.KwPrint + " \"end\";\n")
					for _, in := range inputs {
						if !c.Mine() {
							continue
						}
						var firstKey string
						var firstSched []int
						firstMode := -1
						for mode := 0; mode < 3; mode++ {
							exploreReads(c, sb.String(), in, mode, 2, func(sched []int, o h.Outcome) {
								c.Eval(fmt.Sprint(mode, sched)+sb.String()+in, true)
								c.R.States++
								c.R.Transitions++
								base := fw.Replay{Mode: "file", Program: sb.String(), Stdin: in, Choices: sched, StdinSch: true, StdinMode: mode, CLI: false, InStdout: o.Stdout, InStderr: o.Stderr, InStatus: o.Status}
								if abnormal(c, o, "file", sb.String(), base) {
									return
								}
								key := fmt.Sprintf("%d\x00%s\x00%s", o.Status, o.Stdout, o.FirstDiag())
								c.Outcome(key)
								if firstMode < 0 {
									firstKey, firstSched, firstMode = key, sched, mode
									return
								}
								if key != firstKey {
									r := base
									r.Sig = "C13|outcome-differs|input-delivery"
									r.What = "the same program on the same input bytes differs with the sizes in which reads of stdin are answered"
									r.Expected = fmt.Sprintf("default answer %d schedule %v: %q", firstMode, firstSched, trunc(firstKey, 300))
									r.Observed = fmt.Sprintf("default answer %d schedule %v: %q", mode, sched, trunc(key, 300))
									c.Violate(r)
								}
							})
						}
					}
				}
			}
		}
	}
	// G2: an interactive session is the same bytes on stdin however the reads of stdin are answered:
	// sessions of up to four lines with LF, CR LF and mixed endings (with and without a final ending),
	// three default answers (a line, everything, one byte), up to two deviating reads each
	{
		lineSets := [][]string{
			{model.KwPrint + " 1;"},
			{model.KwVar + " a = 2;", model.KwPrint + " a;"},
			{"1 + 1;", "", model.KwPrint + " \"x\";"},
			{model.KwPrint + " zz;", model.KwPrint + " 3;"},
			{"", ""},
			{model.KwPrint + " \"a", "b\";", "4;"},
		}
		endings := [][2]string{{"\n", "\n"}, {"\r\n", "\r\n"}, {"\r\n", ""}, {"\n", ""}, {"\r\n", "\n"}, {"\n", "\r\n"}}
		for _, ls := range lineSets {
			for _, e := range endings {
				var sb strings.Builder
				for i, l := range ls {
					sb.WriteString(l)
					if i == len(ls)-1 {
						sb.WriteString(e[1])
					} else if i%2 == 0 {
						sb.WriteString(e[0])
					} else if e[1] != "" {
						sb.WriteString(e[1])
					} else {
						sb.WriteString(e[0])
					}
				}
				session := sb.String()
				if !c.Mine() {
					continue
				}
				var firstKey string
				var firstSched []int
				firstMode := -1
				for mode := 0; mode < 3; mode++ {
					bound := 2
					if mode == 2 {
						bound = 1
					}
					exploreReadsRepl(c, session, mode, bound, func(sched []int, o h.Outcome) {
						c.Eval(fmt.Sprint("repl", mode, sched)+session, true)
						c.R.States++
						c.R.Transitions++
						base := fw.Replay{Mode: "repl", Program: session, Choices: sched, StdinSch: true, StdinMode: mode, CLI: false, InStdout: o.Stdout, InStderr: o.Stderr, InStatus: o.Status}
						if abnormal(c, o, "repl", session, base) {
							return
						}
						key := fmt.Sprintf("%d\x00%s\x00%s", o.Status, o.Stdout, o.Stderr)
						c.Outcome(key)
						if firstMode < 0 {
							firstKey, firstSched, firstMode = key, sched, mode
							return
						}
						if key != firstKey {
							r := base
							r.Sig = "C13|outcome-differs|session-delivery"
							r.What = "the same interactive session (the same bytes on stdin) differs with the sizes in which reads of stdin are answered"
							r.Expected = fmt.Sprintf("default answer %d schedule %v: %q", firstMode, firstSched, trunc(firstKey, 300))
							r.Observed = fmt.Sprintf("default answer %d schedule %v: %q", mode, sched, trunc(key, 300))
							c.Violate(r)
						}
					})
				}
			}
		}
	}
	// F: the same program executed several times in ONE process (as successive lines of one
	// interactive session) responds identically every time
	replLines := []string{
		model.KwPrint + " " + model.BiLen + "([1, 2, 3]); " + model.BiLen + " = 7; " + model.KwPrint + " " + model.BiLen + " + 1;",
		model.BiMax + " = 0; " + model.KwPrint + " " + model.BiMax + ";",
		model.KwVar + " t = {b: 1, a: 2}; " + model.KwPrint + " " + model.BiKeys + "(t); " + model.KwPrint + " t;",
		model.KwVar + " q = [1]; q = " + model.BiAppend + "(q, 2); " + model.KwPrint + " q;",
		model.KwFun + " f() { " + model.KwReturn + " 1; } " + model.KwPrint + " f();",
		model.KwPrint + " zz;",
		model.BiInput + " = 1; " + model.KwPrint + " " + model.BiInput + ";",
		"1 / 0;",
		model.KwPrint + " {kb: 1, ka: 2}.zz;",
	}
	for _, ln := range replLines {
		if !c.Mine() {
			continue
		}
		session := strings.Repeat(ln+"\n", 4)
		o := h.RunRepl(session, h.Opts{})
		c.Eval(session, true)
		c.R.States++
		c.R.Transitions++
		base := fw.Replay{Mode: "repl", Program: session, CLI: true, InStdout: o.Stdout, InStderr: o.Stderr, InStatus: o.Status}
		if abnormal(c, o, "repl", session, base) {
			continue
		}
		parts := strings.Split(o.Stdout, ">> ")
		ok := len(parts) == 6
		for k := 2; ok && k <= 4; k++ {
			if parts[k] != parts[1] {
				ok = false
			}
		}
		errUnit := strings.Repeat("x", 0)
		_ = errUnit
		if ok && o.Stderr != "" {
			// stderr must be four copies of one text
			n := len(o.Stderr)
			ok = n%4 == 0 && strings.Repeat(o.Stderr[:n/4], 4) == o.Stderr
		}
		if !ok {
			r := base
			r.Sig = "C13|same-process-repetition"
			r.What = "the same program executed four times in one process must respond identically each time"
			r.Expected = "four identical responses"
			r.Observed = fmt.Sprintf("stdout %q stderr %q", trunc(o.Stdout, 300), trunc(o.Stderr, 300))
			c.Violate(r)
		}
	}
	// supplementary: fresh uninstrumented processes
	if cli := os.Getenv("VERIF_CLI"); cli != "" && c.Shard == 0 {
		reps := 8
		if !c.Quick() {
			reps = 40
		}
		dir, _ := os.MkdirTemp(os.Getenv("VERIF_SCRATCH"), "c13.")
		defer os.RemoveAll(dir)
		extra := model.Render(parenAll([]*model.N{model.Var("ob", model.Obj([]string{"kd", "kb", "ka", "kc"}, []*model.N{model.Num(1), model.Num(2), model.Num(3), model.Num(4)})),
			model.Print(model.CallN(model.BiKeys, model.Id("ob"))), model.Print(model.CallN(model.BiValues, model.Id("ob"))), model.Print(model.Id("ob")), model.Print(model.Prop(model.Obj([]string{"kd", "kb", "ka"}, []*model.N{model.Num(1), model.Num(2), model.Num(3)}), "zz"))}))
		for ei, ex := range append(examples, extra) {
			p := filepath.Join(dir, "prog.bn")
			os.WriteFile(p, []byte(ex), 0o644)
			var firstOut string
			for k := 0; k < reps; k++ {
				ctx, cancel := context.WithTimeout(context.Background(), 30*time.Second)
				cmd := exec.CommandContext(ctx, cli, p)
				cmd.Stdin = strings.NewReader("abc def\nsecond\n")
				var so, se strings.Builder
				cmd.Stdout, cmd.Stderr = &so, &se
				err := cmd.Run()
				cancel()
				st := 0
				if ee, ok := err.(*exec.ExitError); ok {
					st = ee.ExitCode()
				}
				diag := se.String()
				if i := strings.Index(diag, "\n["); i >= 0 {
					if j := strings.IndexByte(diag[i+1:], '\n'); j >= 0 {
						diag = diag[:i+1+j]
					}
				}
				key := fmt.Sprintf("%d\x00%s\x00%s", st, so.String(), diag)
				c.Count("fresh_process_runs")
				if k == 0 {
					firstOut = key
				} else if key != firstOut {
					c.Violate(fw.Replay{Sig: "C13|fresh-process-differs", What: "two fresh processes differ on the same program and input", Mode: "file", Program: ex, Stdin: "abc def\nsecond\n", CLI: false,
						Expected: trunc(firstOut, 300), Observed: trunc(key, 300)})
					break
				}
			}
			_ = ei
		}
	}
	c.R.Traces = c.R.States
	c.Sample(map[string]string{"program": model.Render([]*model.N{model.Print(model.Prop(model.Obj([]string{"kb", "ka"}, []*model.N{model.Num(0), model.Num(1)}), "zz"))}), "requirement": "one first diagnostic over all iteration orders of the quoted literal"})
}

// exploreReadsRepl is exploreReads for an interactive session (stdin is the session itself).
func exploreReadsRepl(c *fw.Ctx, session string, mode, bound int, visit func(sched []int, o h.Outcome)) {
	var rec func(sched []int, dev int)
	rec = func(sched []int, dev int) {
		o := h.RunRepl(session, h.Opts{StdinSchedule: true, StdinMode: mode, Prefix: sched, Fuel: 400000})
		visit(append([]int{}, sched...), o)
		if dev >= bound || c.Expired() {
			return
		}
		for i := len(sched); i < len(o.Points); i++ {
			if o.Points[i].Kind != "read" {
				continue
			}
			for alt := 1; alt < 3; alt++ {
				np := make([]int, i+1)
				copy(np, sched)
				np[i] = alt
				rec(np, dev+1)
			}
		}
	}
	rec(nil, 0)
}

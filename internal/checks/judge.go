package checks

import (
	"fmt"
	"regexp"
	"strings"
	"unicode"

	"verif/internal/fw"
	"verif/internal/h"
	"verif/internal/model"
)

// calibrated first-diagnostic message per error kind (names removed),
// obtained by running the fault alone at top level: differential, no
// wording is hard-coded.
var calib map[string]string

var calibProgs = map[string][2]string{
	"undefined-var":    {"qq;", "qq"},
	"undefined-assign": {"qq = 1;", "qq"},
	"redeclare":        {model.KwVar + " qq = 1; " + model.KwVar + " qq = 2;", "qq"},
	"div-zero":         {"1 / 0;", ""},
	"index-range":      {"[1][5];", ""},
	"not-callable":     {"1(2);", ""},
	"stray-break":      {model.KwBreak + ";", ""},
	"stray-continue":   {model.KwContinue + ";", ""},
	"stray-return":     {model.KwReturn + ";", ""},
}

func diagMessage(stderr, name string) string {
	line := stderr
	if i := strings.IndexByte(line, '\n'); i >= 0 {
		line = line[:i]
	}
	if name != "" {
		// whole words only: the name d must not be found inside "redeclare"
		var sb strings.Builder
		rs, nm := []rune(line), []rune(name)
		isWord := func(r rune) bool { return r == '_' || unicode.IsLetter(r) || unicode.IsDigit(r) || unicode.IsMark(r) }
		for i := 0; i < len(rs); {
			if i+len(nm) <= len(rs) && string(rs[i:i+len(nm)]) == name && (i == 0 || !isWord(rs[i-1])) && (i+len(nm) == len(rs) || !isWord(rs[i+len(nm)])) {
				sb.WriteString("□")
				i += len(nm)
				continue
			}
			sb.WriteRune(rs[i])
			i++
		}
		line = sb.String()
	}
	return line
}

func calibrate() {
	if calib != nil {
		return
	}
	calib = map[string]string{}
	z0, z1 := h.RunFile(model.KwPrint+" 0;", h.Opts{}), h.RunFile(model.KwPrint+" -0;", h.Opts{})
	model.StrictZero = z0.Status == 0 && z1.Status == 0 && z0.Stdout != z1.Stdout
	// container syntax: strict when the implementation writes containers exactly as the model does
	cprog := parenAll([]*model.N{
		model.Print(model.Arr(model.Num(1), model.Arr(model.Num(2), model.Str("a")), model.Nil(), model.Obj([]string{"k", "j"}, []*model.N{model.Num(1), model.Arr(model.Bool(true))}))),
		model.Print(model.Arr()), model.Print(model.Obj(nil, nil)), model.Print(model.Arr(model.Str("x"), model.Str("y z"))),
	})
	cres := (&model.Machine{}).Run(cprog)
	cout := h.RunFile(model.Render(cprog), h.Opts{})
	model.StrictContainers = cout.Status == 0 && cout.Stdout == cres.Stdout()
	for k, p := range calibProgs {
		o := h.RunFile(p[0], h.Opts{})
		if o.Panic == "" && !o.Diverged && o.Stderr != "" {
			calib[k] = diagMessage(o.Stderr, p[1])
		}
	}
}

// diagLine extracts N of the first "[line N]" of a runtime diagnostic.
func runtimeDiagLine(stderr string) int {
	for _, l := range strings.Split(stderr, "\n") {
		if strings.HasPrefix(l, "[line ") {
			var n int
			fmt.Sscanf(l, "[line %d]", &n)
			return n
		}
	}
	return -1
}

type judgeOpts struct {
	Stdin     string
	Lines     []string // model stdin lines
	Prefix    []int
	NoKind    bool // do not compare the calibrated message
	NoLine    bool
	SigPrefix string // signature detail
	NoOneLine bool   // do not also run the one-line layout
	NoPrompt  bool   // do not also run the one-line layout as a line of the interactive prompt
	NoTwice   bool   // do not also run the program as the body of a function called twice
	Machine   *model.Machine
}

// judge renders prog, runs it on the model and on the implementation
// (through the rewritten main package) and compares every observable the
// properties pin down.  It returns the outcome and the model result; skipped
// reports an out-of-domain program.
func judge(c *fw.Ctx, prog []*model.N, jo judgeOpts) (o h.Outcome, res *model.Result, skipped bool) {
	prog = parenAll(prog)
	src := model.Render(prog)
	o, res, skipped = judgeSrc(c, src, prog, jo)
	if !skipped && o.Panic == "" && !o.Diverged && !jo.NoOneLine {
		judgeOneLine(c, prog, jo, o, res)
		if !jo.NoPrompt && jo.Stdin == "" && len(jo.Prefix) == 0 {
			judgePrompt(c, prog, jo)
		}
		if !jo.NoTwice && jo.Stdin == "" && len(jo.Prefix) == 0 && res.Err == nil {
			judgeTwice(c, prog, jo)
		}
		if res.Err != nil && !strings.Contains(strings.ReplaceAll(src, "\n", ""), "\r") && strings.Count(src, "\"")%2 == 0 {
			judgeCRLF(c, src, jo, o, res)
		}
	}
	return o, res, skipped
}

func judgeSrc(c *fw.Ctx, src string, prog []*model.N, jo judgeOpts) (o h.Outcome, res *model.Result, skipped bool) {
	calibrate()
	m := jo.Machine
	if m == nil {
		m = &model.Machine{}
	}
	m.Stdin = jo.Lines
	res = m.Run(prog)
	if res.Unspec != "" {
		c.Skip("unspecified: " + res.Unspec)
		return o, res, true
	}
	if res.Diverged {
		c.Skip("model step budget exceeded")
		return o, res, true
	}
	o = h.RunFile(src, h.Opts{Stdin: jo.Stdin, Prefix: jo.Prefix, Fuel: fuelFor(res) + 40*int64(len(src))})
	c.Eval(src, true)
	c.Outcome(o.Stdout + "\x00" + o.FirstDiag())
	base := fw.Replay{Mode: "file", Program: src, Stdin: jo.Stdin, Choices: jo.Prefix, CLI: len(jo.Prefix) == 0,
		InStdout: o.Stdout, InStderr: o.Stderr, InStatus: o.Status}
	if abnormal(c, o, "file", src, base) {
		return o, res, false
	}
	if len(res.AltErrorLines) > 0 && o.Status == 70 && o.Stderr != "" {
		got := runtimeDiagLine(o.Stderr)
		for _, l := range res.AltErrorLines {
			if l == got {
				c.Skip("unspecified: the implementation refuses a function declaration of a name already bound in the scope")
				return o, res, true
			}
		}
	}
	fail := func(clause, exp, obs string) {
		r := base
		r.Sig = c.Check + "|" + clause
		if jo.SigPrefix != "" {
			r.Sig += "|" + jo.SigPrefix
		}
		r.What = clause
		r.Expected, r.Observed = exp, obs
		c.Violate(r)
	}
	if why := model.CompareStdout(res, o.Stdout); why != "" {
		fail("stdout", res.Stdout(), o.Stdout+"  ("+why+")")
	}
	if res.Err == nil {
		if o.Stderr != "" || o.Status != 0 {
			fail("spurious-error", "no diagnostic, status 0", fmt.Sprintf("status %d stderr %q", o.Status, trunc(o.Stderr, 200)))
		}
		return o, res, false
	}
	if o.Status != 70 || o.Stderr == "" {
		fail("missing-error|"+res.Err.Kind, fmt.Sprintf("runtime error (%s) at line %d, status 70", res.Err.Kind, res.Err.Line),
			fmt.Sprintf("status %d stderr %q", o.Status, trunc(o.Stderr, 200)))
		return o, res, false
	}
	if !jo.NoLine && res.Err.Line > 0 {
		if got := runtimeDiagLine(o.Stderr); got != res.Err.Line {
			fail("error-line|"+res.Err.Kind, fmt.Sprintf("[line %d]", res.Err.Line), fmt.Sprintf("[line %d] in %q", got, trunc(o.Stderr, 200)))
		}
	}
	if !jo.NoKind {
		if want, ok := calib[res.Err.Kind]; ok {
			if got := diagMessage(o.Stderr, res.Err.Name); got != want {
				fail("error-kind|"+res.Err.Kind, want, got)
			}
		}
	}
	return o, res, false
}

// judgeOneLine runs the same program written on a single line: what it prints and whether
// it fails must not depend on the layout (every operation then reports line 1).
func judgeOneLine(c *fw.Ctx, prog []*model.N, jo judgeOpts, multi h.Outcome, res *model.Result) {
	src := model.RenderOneLine(prog)
	if strings.Contains(src, "//") {
		return // a line comment would swallow the rest
	}
	o := h.RunFile(src, h.Opts{Stdin: jo.Stdin, Prefix: jo.Prefix, Fuel: fuelFor(res) + 40*int64(len(src))})
	c.Eval(src, true)
	base := fw.Replay{Mode: "file", Program: src, Stdin: jo.Stdin, Choices: jo.Prefix, CLI: len(jo.Prefix) == 0, InStdout: o.Stdout, InStderr: o.Stderr, InStatus: o.Status}
	if abnormal(c, o, "file", src, base) {
		return
	}
	if o.Stdout != multi.Stdout || o.Status != multi.Status || lineTagRe.ReplaceAllString(o.FirstDiag(), "[line _]") != lineTagRe.ReplaceAllString(multi.FirstDiag(), "[line _]") {
		r := base
		r.Sig = c.Check + "|one-line-layout"
		if jo.SigPrefix != "" {
			r.Sig += "|" + strings.SplitN(jo.SigPrefix, "|", 2)[0]
		}
		r.What = "the program written on one line behaves differently from the same program on several lines"
		r.Expected = fmt.Sprintf("stdout %q status %d diag %q", multi.Stdout, multi.Status, multi.FirstDiag())
		r.Observed = fmt.Sprintf("stdout %q status %d diag %q", o.Stdout, o.Status, o.FirstDiag())
		c.Violate(r)
		return
	}
	if res.Err != nil && res.Err.Line > 0 && o.Stderr != "" {
		if got := runtimeDiagLine(o.Stderr); got != 1 && !strings.Contains(src[:len(src)-1], "\n") {
			r := base
			r.Sig = c.Check + "|one-line-layout|error-line"
			r.What = "a one-line program reports its error on another line"
			r.Expected, r.Observed = "[line 1]", fmt.Sprintf("[line %d]", got)
			c.Violate(r)
		}
	}
}

var lineTagRe = regexp.MustCompile(`\[line [0-9]+\]`)

// parenAll inserts the grouping nodes the ladder requires so that the
// rendered text parses back to exactly the given trees.
func parenAll(prog []*model.N) []*model.N {
	out := make([]*model.N, len(prog))
	for i, s := range prog {
		out[i] = model.FixDangling(model.Parenthesize(s, true))
	}
	return out
}

// fuelFor sizes the implementation's fuel from the model's step count: far
// more than a correct interpreter needs, small enough that a diverging
// execution is recognised quickly.
func fuelFor(res *model.Result) int64 {
	return int64(res.Steps)*400 + 30000
}

// judgeCRLF runs a failing program saved with CRLF line ends: same output, same diagnostic on the same line.
func judgeCRLF(c *fw.Ctx, src string, jo judgeOpts, multi h.Outcome, res *model.Result) {
	for _, l := range strings.Split(src, "\n") {
		if strings.Count(l, "\"")%2 != 0 {
			return // a string literal spans a line break: the CR would become part of it
		}
	}
	crlf := strings.ReplaceAll(src, "\n", "\r\n")
	o := h.RunFile(crlf, h.Opts{Stdin: jo.Stdin, Prefix: jo.Prefix, Fuel: fuelFor(res) + 40*int64(len(src))})
	c.Eval(crlf, true)
	base := fw.Replay{Mode: "file", Program: crlf, Stdin: jo.Stdin, Choices: jo.Prefix, CLI: len(jo.Prefix) == 0, InStdout: o.Stdout, InStderr: o.Stderr, InStatus: o.Status}
	if abnormal(c, o, "file", crlf, base) {
		return
	}
	if o.Stdout != multi.Stdout || o.Status != multi.Status || o.FirstDiag() != multi.FirstDiag() {
		r := base
		r.Sig = c.Check + "|crlf-layout"
		r.What = "the same program with CRLF line ends prints, fails or reports its line differently"
		r.Expected = fmt.Sprintf("stdout %q status %d diag %q", multi.Stdout, multi.Status, multi.FirstDiag())
		r.Observed = fmt.Sprintf("stdout %q status %d diag %q", o.Stdout, o.Status, o.FirstDiag())
		c.Violate(r)
	}
}

// batchVsSingle: every expression printed by a program of its own, then all of
// them printed by one program, in the given order and in reverse: a result
// computed earlier in a run must not change a later one.  Expressions that
// fail on their own are left out of the batches.
func batchVsSingle(c *fw.Ctx, sig string, prelude func() []*model.N, exprs []func() *model.N, stdin string) {
	type one struct {
		mk  func() *model.N
		out string
	}
	var ok []one
	for _, mk := range exprs {
		src := model.Render(parenAll(append(prelude(), model.Print(mk()))))
		o := h.RunFile(src, h.Opts{Stdin: stdin, StdinMode: 1})
		c.Eval("single\x00"+src, true)
		if o.Panic != "" || o.Diverged || o.Status != 0 || o.Stderr != "" {
			continue
		}
		ok = append(ok, one{mk, o.Stdout})
	}
	if len(ok) < 2 {
		return
	}
	for order := 0; order < 2; order++ {
		prog := prelude()
		want := ""
		for k := range ok {
			e := ok[k]
			if order == 1 {
				e = ok[len(ok)-1-k]
			}
			prog = append(prog, model.Print(e.mk()))
			want += e.out
		}
		src := model.Render(parenAll(prog))
		o := h.RunFile(src, h.Opts{Stdin: stdin, StdinMode: 1, Fuel: 2_000_000 + 40*int64(len(src))})
		c.Eval("batch\x00"+src, true)
		base := fw.Replay{Mode: "file", Program: src, Stdin: stdin, CLI: true, InStdout: o.Stdout, InStderr: o.Stderr, InStatus: o.Status}
		if abnormal(c, o, "file", src, base) {
			continue
		}
		c.Outcome(o.Stdout)
		if o.Stdout != want || o.Status != 0 || o.Stderr != "" {
			r := base
			r.Sig = c.Check + "|earlier-results-change-later-ones|" + sig
			r.What = "expressions printed by one program give other results than each printed by a program of its own"
			r.Expected = want
			r.Observed = fmt.Sprintf("stdout %q status %d stderr %q", o.Stdout, o.Status, trunc(o.Stderr, 120))
			c.Violate(r)
		}
	}
}

// judgePrompt runs the program, written on one line, as the only line of an interactive session:
// the same statements run in the same order with the same effects; expression statements at the
// top level additionally echo their value (the reference model in prompt mode says which), a
// runtime error is reported and the session ends normally with status 0.
func judgePrompt(c *fw.Ctx, prog []*model.N, jo judgeOpts) {
	src := model.RenderOneLine(prog)
	if strings.Contains(src, "//") || strings.Contains(strings.TrimSuffix(src, "\n"), "\n") {
		return
	}
	// whether an expression statement nested in a block, branch or loop body of the line (outside
	// any function body) echoes its value is not specified: such programs are left out
	var nested func(n *model.N, depth int) bool
	nested = func(n *model.N, depth int) bool {
		if n == nil {
			return false
		}
		switch n.K {
		case "expr":
			return depth > 0
		case "fun":
			return false
		case "block", "if", "while", "for":
			for i, k := range n.A {
				if n.K == "for" && i == 0 && k != nil && k.K == "expr" {
					return true // an expression as loop initialiser is parsed as a statement
				}
				if nested(k, depth+1) {
					return true
				}
			}
		}
		return false
	}
	for _, st := range prog {
		if nested(st, 0) {
			c.Count("prompt_variant_left_out_nested_expression_statement")
			return
		}
	}
	m := &model.Machine{Repl: true}
	if jo.Machine != nil {
		m.MaxSteps = jo.Machine.MaxSteps
	}
	res := m.Run(prog)
	if res.Unspec != "" || res.Diverged {
		return
	}
	o := h.RunRepl(src, h.Opts{Fuel: fuelFor(res) + 40*int64(len(src))})
	c.Eval("prompt\x00"+src, true)
	base := fw.Replay{Mode: "repl", Program: src, CLI: true, InStdout: o.Stdout, InStderr: o.Stderr, InStatus: o.Status}
	if abnormal(c, o, "repl", src, base) {
		return
	}
	fail := func(clause, exp, obs string) {
		r := base
		r.Sig = c.Check + "|as-prompt-line|" + clause
		if jo.SigPrefix != "" {
			r.Sig += "|" + strings.SplitN(jo.SigPrefix, "|", 2)[0]
		}
		r.What = "the program typed as one line at the interactive prompt: " + clause
		r.Expected, r.Observed = exp, obs
		c.Violate(r)
	}
	if !strings.HasPrefix(o.Stdout, ">> ") || !strings.HasSuffix(o.Stdout, ">> ") || len(o.Stdout) < 6 || o.Status != 0 {
		fail("session", "a prompt, the response, a final prompt, status 0", fmt.Sprintf("stdout %q status %d", trunc(o.Stdout, 200), o.Status))
		return
	}
	body := o.Stdout[3 : len(o.Stdout)-3]
	if why := model.CompareStdout(res, body); why != "" {
		fail("stdout", res.Stdout(), body+"  ("+why+")")
	}
	if (res.Err != nil) != (o.Stderr != "") {
		fail("diagnostic", fmt.Sprintf("runtime error expected: %v", res.Err != nil), fmt.Sprintf("stderr %q", trunc(o.Stderr, 200)))
	}
}

// judgeTwice runs the program as the body of a function that is called twice in one run: the
// second execution of the very same statements (same syntax-tree nodes, fresh activation) must
// behave as the reference model says -- whatever the first execution left behind on the nodes
// or in the interpreter must not show.  Only for programs that end without an error.
func judgeTwice(c *fw.Ctx, prog []*model.N, jo judgeOpts) {
	wrapped := []*model.N{model.Fun("twice_body", nil, cloneProg(prog)...), model.ExprS(model.CallN("twice_body")), model.Print(model.Str("--again")), model.ExprS(model.CallN("twice_body"))}
	wrapped = parenAll(wrapped)
	m := &model.Machine{}
	if jo.Machine != nil {
		m.MaxSteps = 2*jo.Machine.MaxSteps + 100
	}
	res := m.Run(wrapped)
	if res.Unspec != "" || res.Diverged {
		c.Count("twice_variant_left_out_unspecified")
		return
	}
	src := model.Render(wrapped)
	o := h.RunFile(src, h.Opts{Fuel: fuelFor(res) + 40*int64(len(src))})
	c.Eval(src, true)
	base := fw.Replay{Mode: "file", Program: src, CLI: true, InStdout: o.Stdout, InStderr: o.Stderr, InStatus: o.Status}
	if abnormal(c, o, "file", src, base) {
		return
	}
	fail := func(clause, exp, obs string) {
		r := base
		r.Sig = c.Check + "|as-function-called-twice|" + clause
		if jo.SigPrefix != "" {
			r.Sig += "|" + strings.SplitN(jo.SigPrefix, "|", 2)[0]
		}
		r.What = "the program as the body of a function called twice: " + clause
		r.Expected, r.Observed = exp, obs
		c.Violate(r)
	}
	if why := model.CompareStdout(res, o.Stdout); why != "" {
		fail("stdout", res.Stdout(), o.Stdout+"  ("+why+")")
		return
	}
	if (res.Err != nil) != (o.Status == 70 && o.Stderr != "") || (res.Err == nil && (o.Status != 0 || o.Stderr != "")) {
		fail("status", fmt.Sprintf("runtime error expected: %v", res.Err != nil), fmt.Sprintf("status %d stderr %q", o.Status, trunc(o.Stderr, 200)))
	}
}

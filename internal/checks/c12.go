package checks

import (
	"fmt"
	"reflect"
	"sort"
	"strings"

	"verif/internal/fw"
	"verif/internal/h"
	"verif/internal/model"
)

func init() { Registry["C12"] = C12 }

type objOp struct {
	Name string
	Leaf bool
	Mk   func(K float64) []*model.N
}

var objVars = []string{"o", "r"}
var objKeys = []string{"k1", "k2", "k3"}

func objOps(thorough bool) []objOp {
	var ops []objOp
	id, num := model.Id, model.Num
	st := func(e *model.N) []*model.N { return []*model.N{model.ExprS(e)} }
	add := func(name string, leaf bool, mk func(K float64) []*model.N) { ops = append(ops, objOp{name, leaf, mk}) }
	for _, x := range objVars {
		x := x
		add(x+"={}", false, func(K float64) []*model.N { return st(model.Asg(x, model.Obj(nil, nil))) })
		add(x+"=mkObj()", false, func(K float64) []*model.N { return st(model.Asg(x, model.CallN("mkObj"))) })
		add(x+"=mkDeep()", false, func(K float64) []*model.N { return st(model.Asg(x, model.CallN("mkDeep"))) })
		add(x+".k1[0].k2=K", false, func(K float64) []*model.N {
			return st(model.PAsg(model.Idx(model.Prop(id(x), "k1"), num(0)), "k2", num(K)))
		})
		add(model.BiDelete+"("+x+".k1[0],k2)", false, func(K float64) []*model.N {
			return st(model.CallN(model.BiDelete, model.Idx(model.Prop(id(x), "k1"), num(0)), model.Str("k2")))
		})
		add(x+"={k1:K}", false, func(K float64) []*model.N { return st(model.Asg(x, model.Obj([]string{"k1"}, []*model.N{num(K)}))) })
		add(x+"={k3:K,k1:K+1,k2:K+2}", false, func(K float64) []*model.N {
			return st(model.Asg(x, model.Obj([]string{"k3", "k1", "k2"}, []*model.N{num(K), num(K + 1), num(K + 2)})))
		})
		if thorough {
			add(x+"={6 keys}", false, func(K float64) []*model.N {
				return st(model.Asg(x, model.Obj([]string{"k6", "k2", "k5", "k1", "k4", "k3"}, []*model.N{num(K), num(K + 1), num(K + 2), num(K + 3), num(K + 4), num(K + 5)})))
			})
			add(x+"={4 keys}", false, func(K float64) []*model.N {
				return st(model.Asg(x, model.Obj([]string{"k4", "k2", "k1", "k3"}, []*model.N{num(K), model.Str("s"), model.Nil(), num(K + 3)})))
			})
		}
		for _, y := range objVars {
			if x != y {
				y := y
				add(x+"="+y, false, func(K float64) []*model.N { return st(model.Asg(x, id(y))) })
				add(x+".k1="+y, false, func(K float64) []*model.N { return st(model.PAsg(id(x), "k1", id(y))) })
				add(x+".k2="+y, false, func(K float64) []*model.N { return st(model.PAsg(id(x), "k2", id(y))) })
			}
		}
		for _, k := range objKeys {
			k := k
			add(x+"."+k+"=K", false, func(K float64) []*model.N { return st(model.PAsg(id(x), k, num(K))) })
			add(model.BiDelete+"("+x+","+k+")", false, func(K float64) []*model.N { return st(model.CallN(model.BiDelete, id(x), model.Str(k))) })
			add("read "+x+"."+k, false, func(K float64) []*model.N { return []*model.N{model.Print(model.Prop(id(x), k))} })
		}
		add(x+".k1={}; "+x+".k3="+x+".k1", false, func(K float64) []*model.N {
			return []*model.N{model.ExprS(model.PAsg(id(x), "k1", model.Obj(nil, nil))), model.ExprS(model.PAsg(id(x), "k3", model.Prop(id(x), "k1")))}
		})
		add(x+"={canonically equivalent keys}", false, func(K float64) []*model.N {
			return st(model.Asg(x, model.Obj([]string{"k\u09DF", "k1", "k\u09AF\u09BC"}, []*model.N{num(K), num(K + 1), num(K + 2)})))
		})
		add(x+".k1={k2:K}", false, func(K float64) []*model.N {
			return st(model.PAsg(id(x), "k1", model.Obj([]string{"k2"}, []*model.N{num(K)})))
		})
		add(x+".k1=[K]", false, func(K float64) []*model.N { return st(model.PAsg(id(x), "k1", model.Arr(num(K)))) })
		add(x+".k1.k2=K", false, func(K float64) []*model.N { return st(model.PAsg(model.Prop(id(x), "k1"), "k2", num(K))) })
		add(x+".k1[0]=K", false, func(K float64) []*model.N { return st(model.IAsg(model.Prop(id(x), "k1"), num(0), num(K))) })
		add("list "+x, false, func(K float64) []*model.N { return objListing(x) })
		add("pokeo("+x+")", false, func(K float64) []*model.N { return st(model.CallN("pokeo", id(x), num(K))) })
		add("arr=["+x+"]; arr[0].k2=K", false, func(K float64) []*model.N {
			return []*model.N{model.Block(model.Var("arr", model.Arr(id(x))), model.ExprS(model.PAsg(model.Idx(id("arr"), num(0)), "k2", num(K))))}
		})
	}
	// `.` on every non-object kind (leaves)
	for _, v := range c14Values() {
		v := v
		if v.Name == "{}" {
			continue
		}
		add(". on "+v.Name, true, func(K float64) []*model.N { return []*model.N{model.Print(model.Prop(model.Grp(v.Mk()), "k1"))} })
		add(".= on "+v.Name, true, func(K float64) []*model.N { return st(model.PAsg(model.Grp(v.Mk()), "k1", num(K))) })
		add(model.BiDelete+" on "+v.Name, true, func(K float64) []*model.N { return st(model.CallN(model.BiDelete, model.Grp(v.Mk()), model.Str("k1"))) })
		add(model.BiKeys+" on "+v.Name, true, func(K float64) []*model.N {
			return []*model.N{model.Print(model.CallN(model.BiKeys, model.Grp(v.Mk())))}
		})
	}
	add(model.BiDelete+"(o, 1)", true, func(K float64) []*model.N { return st(model.CallN(model.BiDelete, id("o"), num(1))) })
	return ops
}

// listing prints the key/value listings of x pairwise between markers.
func objListing(x string) []*model.N {
	id, num := model.Id, model.Num
	return []*model.N{
		T("--list " + x),
		model.Block(
			model.Var("ks", model.CallN(model.BiKeys, id(x))),
			model.Var("vs", model.CallN(model.BiValues, id(x))),
			model.Print(model.CallN(model.BiLen, id("ks"))),
			model.Print(model.CallN(model.BiLen, id("vs"))),
			model.For(model.Var("i", num(0)), model.Bin("<", id("i"), model.CallN(model.BiLen, id("ks"))), model.Asg("i", model.Bin("+", id("i"), num(1))),
				model.Block(model.Print(model.Idx(id("ks"), id("i"))), model.Print(model.Idx(id("vs"), id("i"))))),
			// a second listing of the unmodified object gives the same sequence
			model.Print(model.Bin("==", model.Bin("+", model.Str(""), model.CallN(model.BiLen, model.CallN(model.BiKeys, id(x)))), model.Bin("+", model.Str(""), model.CallN(model.BiLen, id("ks"))))),
		),
		T("--end"),
	}
}

func objProgram(hist []int, ops []objOp) []*model.N {
	prog := []*model.N{
		model.Fun("pokeo", []string{"z", "v"}, model.ExprS(model.PAsg(model.Id("z"), "k1", model.Id("v")))),
		model.Fun("mkDeep", nil, model.Return(model.Obj([]string{"k2", "k1"}, []*model.N{model.Num(6), model.Arr(model.Obj([]string{"k2", "k3"}, []*model.N{model.Num(1), model.Num(2)}), model.Obj([]string{"k2"}, []*model.N{model.Num(3)}))}))),
		model.Fun("mkObj", nil, model.Return(model.Obj([]string{"k2", "k1"}, []*model.N{model.Num(8), model.Obj([]string{"k2"}, []*model.N{model.Num(9)})}))),
		model.Var("o", model.Obj([]string{"k2", "k1"}, []*model.N{model.Num(1), model.Num(2)})),
		model.Var("r", model.Id("o")),
	}
	for i, o := range hist {
		prog = append(prog, ops[o].Mk(float64(100*(i+1)))...)
	}
	for _, v := range objVars {
		prog = append(prog, model.Print(model.Id(v)))
	}
	// the same object reached several times from one printed value shows all its properties each time
	prog = append(prog, model.Print(model.Arr(model.Id("o"), model.Id("r"), model.Id("o"))))
	for _, v := range objVars {
		prog = append(prog, objListing(v)...)
	}
	for _, v := range objVars {
		prog = append(prog, model.ExprS(model.Id(v)))
	}
	return prog
}

// compareObjOutput compares stdout line by line; listing segments are
// compared as sets of (key, value) pairs: the order of a listing is free,
// but the i-th value must be the value of the i-th key.
func compareObjOutput(exp, got string) string {
	el := strings.Split(strings.TrimSuffix(exp, "\n"), "\n")
	gl := strings.Split(strings.TrimSuffix(got, "\n"), "\n")
	if len(el) != len(gl) {
		return fmt.Sprintf("%d lines expected, %d printed", len(el), len(gl))
	}
	i := 0
	for i < len(el) {
		if strings.HasPrefix(el[i], "--list") {
			if gl[i] != el[i] {
				return "marker mismatch"
			}
			j := i + 1
			for j < len(el) && el[j] != "--end" {
				j++
			}
			if j >= len(gl) || gl[j] != "--end" {
				return "listing has another size"
			}
			seg, gseg := el[i+1:j], gl[i+1:j]
			// count lines
			if !model.LineEq(seg[0], gseg[0], false) || !model.LineEq(seg[1], gseg[1], false) {
				return fmt.Sprintf("listing lengths: expected %s/%s, got %s/%s", seg[0], seg[1], gseg[0], gseg[1])
			}
			type kv struct{ k, v string }
			collect := func(s []string) []kv {
				var out []kv
				for p := 2; p+1 < len(s)-1; p += 2 {
					out = append(out, kv{s[p], s[p+1]})
				}
				sort.Slice(out, func(a, b int) bool {
					if out[a].k != out[b].k {
						return out[a].k < out[b].k
					}
					return out[a].v < out[b].v
				})
				return out
			}
			ep, gp := collect(seg), collect(gseg)
			if len(ep) != len(gp) {
				return "listing pair count"
			}
			for p := range ep {
				if ep[p].k != gp[p].k || !model.LineEq(ep[p].v, gp[p].v, true) {
					return fmt.Sprintf("listing pairs differ: expected %v, got %v", ep, gp)
				}
			}
			if seg[len(seg)-1] != gseg[len(gseg)-1] {
				return "second listing differs"
			}
			i = j + 1
			continue
		}
		if !model.LineEq(el[i], gl[i], true) {
			return fmt.Sprintf("line %d: expected %q, got %q", i+1, el[i], gl[i])
		}
		i++
	}
	return ""
}

func C12(c *fw.Ctx) {
	depth, bound := 3, 1
	if !c.Quick() {
		// depth 4, or two deviating iteration orders per execution, with the extended operation set take
		// hours: the thorough tier widens the operation alphabet (six-key literals, nil values, listings in
		// mid-history) and keeps depth 3 / one deviation
	}
	if c.Tier == "deep" {
		depth = 5
	}
	ops := objOps(!c.Quick())
	c.Bound("operations", len(ops))
	c.Bound("history_depth", depth)
	c.Bound("schedule_deviation_bound", bound)
	c.R.Rule = "breadth-first search over histories of object operations on two variables with shared ancestry (start: o={k2,k1}, r=o) over a key pool; after each history both objects are printed and their key/value listings are printed pairwise and compared with a pure map model (listing order free, pairing and completeness required), under every iteration-order schedule within the deviation bound; states merged on the canonical model heap joined with the implementation's map-identity fingerprint; error steps are leaves"
	seen := map[string]bool{}
	frontier := [][]int{nil}
	for d := 0; d <= depth && len(frontier) > 0; d++ {
		var next [][]int
		for _, nd := range frontier {
			for oi := range ops {
				if d == 0 && oi > 0 {
					break
				}
				var hist []int
				if d > 0 {
					hist = append(append([]int{}, nd...), oi)
					if hist[0]%c.NShards != c.Shard {
						continue
					}
					if c.Expired() {
						continue
					}
				}
				prog := parenAll(objProgram(hist, ops))
				src := model.Render(prog)
				m := &model.Machine{}
				res := m.Run(prog)
				if res.Unspec != "" || res.Diverged {
					c.Skip("unspecified: " + res.Unspec)
					continue
				}
				cyc := false
				for _, v := range objVars {
					mv, _ := m.TopVar(v)
					if objCyclic(mv, map[interface{}]bool{}) {
						cyc = true
					}
				}
				if cyc {
					c.Skip("self-containing object (covered by C07)")
					continue
				}
				lastOp := "start"
				if len(hist) > 0 {
					lastOp = ops[hist[len(hist)-1]].Name
				}
				var vals []interface{}
				ok := true
				nsched, _ := exploreChoices(c, func(prefix []int) h.Outcome {
					v, o := h.Interpret(src, h.Opts{Prefix: prefix, Fuel: fuelFor(res)})
					if len(prefix) == 0 {
						vals = v
					}
					return o
				}, bound, func(prefix []int, o h.Outcome) {
					if d > 0 || c.Shard == 0 {
						c.Eval(fmt.Sprint(prefix)+src, true)
					}
					c.Outcome(o.Stdout)
					base := fw.Replay{Mode: "file", Program: src, Choices: append([]int{}, prefix...), CLI: len(prefix) == 0, InStdout: o.Stdout, InStderr: o.Stderr, InStatus: o.Status}
					if abnormal(c, o, "file", src, base) {
						ok = false
						return
					}
					fail := func(clause, exp, obs string) {
						r := base
						r.Sig = "C12|" + clause
						if len(prefix) > 0 {
							r.Sig += "|scheduled"
						}
						r.What = clause
						r.Expected, r.Observed = exp, obs+" history "+objHist(hist, ops)+fmt.Sprintf(" schedule %v", prefix)
						c.Violate(r)
						ok = false
					}
					if res.Err != nil {
						if o.Stderr == "" || o.Status != 70 {
							fail("missing-error|"+objClass(lastOp), fmt.Sprintf("runtime error %s", res.Err.Kind), fmt.Sprintf("status %d stderr %q", o.Status, trunc(o.Stderr, 100)))
							return
						}
						if res.Err.Line > 0 && runtimeDiagLine(o.Stderr) != res.Err.Line {
							fail("error-line|"+objClass(lastOp), fmt.Sprintf("[line %d]", res.Err.Line), trunc(o.Stderr, 100))
						}
						if why := compareObjOutput(res.Stdout(), o.Stdout); why != "" && res.Stdout() != "" {
							fail("stdout-before-error|"+objClass(lastOp), res.Stdout(), o.Stdout+" ("+why+")")
						}
						return
					}
					if o.Stderr != "" || o.Status != 0 {
						fail("spurious-error|"+objClass(lastOp), "no error", fmt.Sprintf("status %d stderr %q", o.Status, trunc(o.Stderr, 100)))
						return
					}
					if why := compareObjOutput(res.Stdout(), o.Stdout); why != "" {
						fail("stdout|"+objClass(lastOp), res.Stdout(), o.Stdout+" ("+why+")")
					}
				})
				c.Add("schedules", int64(nsched))
				if d > 0 || c.Shard == 0 {
					c.R.Transitions++
				}
				if !ok || res.Err != nil {
					if res.Err != nil {
						c.Count("error_leaves")
					}
					continue
				}
				if len(hist) > 0 && ops[hist[len(hist)-1]].Leaf {
					continue
				}
				cn := &canon{ids: map[interface{}]int{}, ranks: map[float64]int{}}
				for _, v := range objVars {
					mv, _ := m.TopVar(v)
					cn.modelObj(mv)
					cn.sb.WriteString(";")
				}
				cn.sb.WriteString("|")
				cn2 := &canon{ids: map[interface{}]int{}, ranks: cn.ranks}
				if n := len(vals); n >= 2 {
					for _, v := range vals[n-2:] {
						cn2.implObj(v)
						cn2.sb.WriteString(";")
					}
				} else {
					cn2.sb.WriteString(objHist(hist, ops))
				}
				key := cn.sb.String() + cn2.sb.String()
				// a listing may leave something behind in the implementation (a memo, a cursor) that no
				// observable state shows yet: histories are not merged from their last listing onwards
				for li := len(hist) - 1; li >= 0; li-- {
					if strings.HasPrefix(ops[hist[li]].Name, "list ") {
						key += "|since-listing:" + objHist(hist[li:], ops)
						break
					}
				}
				if seen[key] {
					c.Count("merged")
					continue
				}
				seen[key] = true
				c.R.States++
				if c.R.States%300 == 1 {
					c.Sample(map[string]string{"history": objHist(hist, ops), "state_key": key})
				}
				next = append(next, hist)
			}
		}
		frontier = next
	}
	c.R.Traces = c.R.Transitions
	objNames(c, bound)
	objValues(c, bound)
	scaleObjects(c)
	objLiteralNames(c)
	objStoreRebinding(c)
	objThroughArrays(c)
}

// objThroughArrays: an object stays one object whatever containers it travels through: an object whose
// property values are of every kind (number, text, empty / non-empty array, empty / nested object holding an
// array) is put into an array; the array goes through every sequence of up to two of {append, remove of
// another element, alias, pass through a function, wrap in another array and unwrap}; then the object is
// written, extended and reduced through one holder and read through the other, both ways
func objThroughArrays(c *fw.Ctx) {
	id, num := model.Id, model.Num
	vals := []struct {
		name string
		mk   func() *model.N
	}{
		{"number", func() *model.N { return num(7) }},
		{"text", func() *model.N { return model.Str("s") }},
		{"empty-array", func() *model.N { return model.Arr() }},
		{"array", func() *model.N { return model.Arr(num(1), num(2)) }},
		{"empty-object", func() *model.N { return model.Obj(nil, nil) }},
		{"object-with-array", func() *model.N { return model.Obj([]string{"in"}, []*model.N{model.Arr(num(1))}) }},
		{"array-of-object", func() *model.N { return model.Arr(model.Obj([]string{"z"}, []*model.N{num(0)})) }},
	}
	steps := []struct {
		name string
		mk   func() []*model.N
	}{
		{"append", func() []*model.N { return []*model.N{model.ExprS(model.Asg("list", model.CallN(model.BiAppend, id("list"), num(5))))} }},
		{"append-two", func() []*model.N {
			return []*model.N{model.ExprS(model.Asg("list", model.CallN(model.BiAppend, id("list"), num(5), model.Obj([]string{"q"}, []*model.N{model.Arr(num(9))}))))}
		}},
		{"remove-other", func() []*model.N {
			return []*model.N{model.ExprS(model.Asg("list", model.CallN(model.BiAppend, id("list"), num(6)))), model.ExprS(model.Asg("list", model.CallN(model.BiRemove, id("list"), num(1))))}
		}},
		{"alias", func() []*model.N { return []*model.N{model.Var("other", id("list")), model.ExprS(model.Asg("list", id("other")))} }},
		{"through-function", func() []*model.N { return []*model.N{model.ExprS(model.Asg("list", model.CallN("same", id("list"))))} }},
		{"wrap-unwrap", func() []*model.N { return []*model.N{model.ExprS(model.Asg("list", model.Idx(model.Arr(id("list")), num(0))))} }},
		{"append-remove-append", func() []*model.N { return []*model.N{model.ExprS(model.Asg("list", model.CallN(model.BiAppend, model.CallN(model.BiRemove, model.CallN(model.BiAppend, id("list"), num(1)), num(1)))))} }},
	}
	for _, v := range vals {
		for i, s1 := range steps {
			for j, s2 := range steps {
				if !c.Mine() {
					continue
				}
				prog := []*model.N{
					model.Fun("same", []string{"x"}, model.Return(id("x"))),
					model.Var("o", model.Obj([]string{"n", "row"}, []*model.N{num(1), v.mk()})),
					model.Var("list", model.Arr(id("o"))),
				}
				prog = append(prog, s1.mk()...)
				if i != j || i < 3 {
					prog = append(prog, s2.mk()...)
				}
				prog = append(prog,
					model.Print(model.Bin("==", model.Idx(id("list"), num(0)), id("o"))),
					model.ExprS(model.PAsg(id("o"), "n", num(2))), model.Print(model.Prop(model.Idx(id("list"), num(0)), "n")),
					model.ExprS(model.PAsg(model.Idx(id("list"), num(0)), "m", num(3))), model.Print(id("o")),
					model.ExprS(model.CallN(model.BiDelete, id("o"), model.Str("n"))), model.Print(model.CallN(model.BiKeys, model.Idx(id("list"), num(0)))),
					model.Print(id("list")))
				judge(c, prog, judgeOpts{SigPrefix: "object-through-arrays|" + v.name + "|" + s1.name + "|" + s2.name})
				c.R.States++
				c.R.Transitions++
			}
		}
	}
}

// objStoreRebinding: a store `T.k = V` (and `T[i] = V`) whose value expression V rebinds what the target
// expression T names -- V is an assignment to T's variable, an assignment to the property T goes
// through, a call that does either, a call that removes / adds a property of T's object -- writes into the
// object T denoted before V was evaluated: every target form x every value form, then everything printed
func objStoreRebinding(c *fw.Ctx) {
	id, num := model.Id, model.Num
	mkNode := func(v float64) *model.N { return model.Obj([]string{"val", "next"}, []*model.N{num(v), model.Nil()}) }
	targets := []struct {
		name string
		mk   func() *model.N
	}{
		{"variable", func() *model.N { return id("t") }},
		{"property", func() *model.N { return model.Prop(id("q"), "tail") }},
		{"element", func() *model.N { return model.Idx(id("ar"), num(0)) }},
		{"call-result", func() *model.N { return model.CallN("cur") }},
		{"grouped", func() *model.N { return model.Grp(id("t")) }},
	}
	values := []struct {
		name string
		mk   func() *model.N
	}{
		{"plain", func() *model.N { return mkNode(2) }},
		{"rebind-variable", func() *model.N { return model.Asg("t", mkNode(2)) }},
		{"rebind-property", func() *model.N { return model.PAsg(id("q"), "tail", mkNode(2)) }},
		{"rebind-element", func() *model.N { return model.IAsg(id("ar"), num(0), mkNode(2)) }},
		{"rebind-all-by-call", func() *model.N { return model.CallN("advance") }},
		{"delete-by-call", func() *model.N { return model.CallN("strip") }},
		{"grouped-rebind", func() *model.N { return model.Grp(model.Asg("t", mkNode(2))) }},
	}
	for _, tg := range targets {
		for _, vl := range values {
			for form := 0; form < 2; form++ {
				if !c.Mine() {
					continue
				}
				prog := []*model.N{
					model.Var("first", mkNode(1)),
					model.Var("t", id("first")),
					model.Var("q", model.Obj([]string{"tail"}, []*model.N{id("first")})),
					model.Var("ar", model.Arr(id("first"))),
					model.Fun("cur", nil, model.Return(id("t"))),
					model.Fun("advance", nil, model.Var("n", mkNode(3)), model.ExprS(model.Asg("t", id("n"))), model.ExprS(model.PAsg(id("q"), "tail", id("n"))), model.ExprS(model.IAsg(id("ar"), num(0), id("n"))), model.Return(id("n"))),
					model.Fun("strip", nil, model.ExprS(model.Asg("t", model.CallN(model.BiDelete, id("t"), model.Str("next")))), model.Return(num(9))),
				}
				if form == 0 {
					prog = append(prog, model.ExprS(model.PAsg(tg.mk(), "next", vl.mk())))
				} else {
					prog = append(prog, model.Print(model.PAsg(tg.mk(), "next", vl.mk())))
				}
				prog = append(prog, model.Print(id("first")), model.Print(id("t")), model.Print(id("q")), model.Print(id("ar")),
					model.Print(model.Bin("==", id("first"), id("t"))))
				judge(c, prog, judgeOpts{SigPrefix: "store-value-rebinds-target|" + tg.name + "|" + vl.name})
				c.R.States++
				c.R.Transitions++
			}
		}
	}
}

// objLiteralNames: the value expressions of a literal are ordinary expressions of the enclosing scope:
// three variables a, b, w exist outside; the literal has the keys a, b, w in every order and every value
// is one of {a constant, the variable of the same name, another variable, an expression over two
// variables, a call with a variable}; also as a function's return value built from its parameters.
func objLiteralNames(c *fw.Ctx) {
	id, num := model.Id, model.Num
	keys := []string{"a", "b", "w"}
	vals := func(k string, form int) *model.N {
		other := map[string]string{"a": "b", "b": "w", "w": "a"}[k]
		switch form {
		case 0:
			return num(5)
		case 1:
			return id(k)
		case 2:
			return id(other)
		case 3:
			return model.Bin("+", id("a"), id("w"))
		}
		return model.CallN("idf", id(other))
	}
	for _, perm := range permutations(3) {
		for code := 0; code < 125; code++ {
			if !c.Mine() {
				continue
			}
			var ks []string
			var vs, vs2 []*model.N
			cd := code
			for _, p := range perm {
				ks = append(ks, keys[p])
				vs = append(vs, vals(keys[p], cd%5))
				vs2 = append(vs2, vals(keys[p], cd%5))
				cd /= 5
			}
			prog := []*model.N{
				model.Fun("idf", []string{"x"}, model.Return(id("x"))),
				model.Var("a", num(10)), model.Var("b", model.Obj([]string{"n"}, []*model.N{num(1)})), model.Var("w", num(3)),
				model.Var("o", model.Obj(ks, vs)),
				model.Print(id("o")), model.Print(model.CallN(model.BiKeys, id("o"))), model.Print(model.CallN(model.BiValues, id("o"))),
				model.Fun("mk", []string{"a", "b", "w"}, model.Return(model.Obj(ks, vs2))),
				model.Print(model.CallN("mk", num(1), num(2), num(4))),
				model.Print(model.Arr(id("a"), id("b"), id("w"))),
			}
			judge(c, prog, judgeOpts{SigPrefix: "literal-values-mention-names", NoOneLine: true})
			c.R.States++
			c.R.Transitions++
		}
	}
}

// objValues: a property exists whatever value it holds: for every value of a pool covering every kind
// (nil, both booleans, zero, the empty string, empty containers, a function ...), as an initialiser and
// as an assigned value: read, listed, removed, listed again, removed twice (an error), under every
// iteration-order schedule within the bound.
func objValues(c *fw.Ctx, bound int) {
	id, num := model.Id, model.Num
	vals := []pval{
		{"nil", model.Nil}, {"false", func() *model.N { return model.Bool(false) }}, {"true", func() *model.N { return model.Bool(true) }},
		{"0", func() *model.N { return num(0) }}, {"empty-string", func() *model.N { return model.Str("") }}, {"string", func() *model.N { return model.Str("s") }},
		{"empty-array", func() *model.N { return model.Arr() }}, {"empty-object", func() *model.N { return model.Obj(nil, nil) }},
		{"function", func() *model.N { return id("nf") }}, {"nil-result", func() *model.N { return model.CallN("nf") }},
		{"unset-variable", func() *model.N { return id("unset") }},
	}
	c.Bound("property_value_kinds", len(vals))
	for _, v := range vals {
		for form := 0; form < 3; form++ {
			for last := 0; last < 3; last++ {
				if !c.Mine() {
					continue
				}
				prog := []*model.N{model.Fun("nf", nil), model.Var("unset", nil)}
				switch form {
				case 0:
					prog = append(prog, model.Var("o", model.Obj([]string{"b", "a"}, []*model.N{num(1), v.Mk()})))
				case 1:
					prog = append(prog, model.Var("o", model.Obj([]string{"b"}, []*model.N{num(1)})), model.ExprS(model.PAsg(id("o"), "a", v.Mk())))
				case 2:
					prog = append(prog, model.Var("o", model.Obj([]string{"a", "b"}, []*model.N{num(5), num(1)})), model.Var("r", id("o")), model.ExprS(model.PAsg(id("r"), "a", v.Mk())))
				}
				prog = append(prog, model.Print(model.Prop(id("o"), "a")), model.Print(id("o")))
				prog = append(prog, objListing("o")...)
				prog = append(prog, model.ExprS(model.CallN(model.BiDelete, id("o"), model.Str("a"))), model.Print(id("o")))
				prog = append(prog, objListing("o")...)
				switch last {
				case 0:
					prog = append(prog, model.ExprS(model.CallN(model.BiDelete, id("o"), model.Str("a"))), T("unreachable"))
				case 1:
					prog = append(prog, model.Print(model.Prop(id("o"), "a")), T("unreachable"))
				case 2:
					prog = append(prog, model.ExprS(model.PAsg(id("o"), "a", v.Mk())), model.Print(id("o")), model.ExprS(model.CallN(model.BiDelete, id("o"), model.Str("b"))), model.Print(id("o")))
				}
				prog = parenAll(prog)
				src := model.Render(prog)
				res := (&model.Machine{}).Run(prog)
				if res.Unspec != "" || res.Diverged {
					c.Skip("unspecified: " + res.Unspec)
					continue
				}
				n, _ := exploreChoices(c, func(prefix []int) h.Outcome {
					return h.RunFile(src, h.Opts{Prefix: prefix, Fuel: fuelFor(res)})
				}, bound, func(prefix []int, o h.Outcome) {
					c.Eval(fmt.Sprint(prefix)+src, true)
					c.Outcome(o.Stdout)
					base := fw.Replay{Mode: "file", Program: src, Choices: append([]int{}, prefix...), CLI: len(prefix) == 0, InStdout: o.Stdout, InStderr: o.Stderr, InStatus: o.Status}
					if abnormal(c, o, "file", src, base) {
						return
					}
					why := compareObjOutput(res.Stdout(), o.Stdout)
					if why == "" && (res.Err != nil) != (o.Status == 70 && o.Stderr != "") {
						why = fmt.Sprintf("runtime error expected: %v; status %d stderr %q", res.Err != nil, o.Status, trunc(o.Stderr, 100))
					}
					if why == "" && res.Err != nil && res.Err.Line > 0 && runtimeDiagLine(o.Stderr) != res.Err.Line {
						why = fmt.Sprintf("error expected on line %d: %q", res.Err.Line, trunc(o.Stderr, 100))
					}
					if why != "" {
						r := base
						r.Sig = "C12|property-values|" + v.Name
						r.What = "a property holding a value of this kind: read, listed, removed, re-added"
						r.Expected, r.Observed = res.Stdout(), o.Stdout+" ("+why+")"+fmt.Sprintf(" schedule %v", prefix)
						c.Violate(r)
					}
				})
				c.Add("schedules", int64(n))
				c.R.States++
				c.R.Transitions += int64(n)
			}
		}
	}
}

// objNames: objects whose property names are easily confused with each other (leading zeros, the same
// number in two digit scripts, case, canonically equivalent spellings, one a prefix of the other): every
// ordered pair of a pool of sixteen and every ordered triple of a pool of eight, as literal and as
// assignments; printed, listed, read, one property removed, listed again, re-added, listed again -- under
// every iteration-order schedule within the bound.
func objNames(c *fw.Ctx, bound int) {
	pool := []string{"k1", "k01", "k001", "k\u09e7", "k10", "k9", "k1a", "K1", "k_1", "\u0995\u09e7", "\u09951", "\u0995\u09e6\u09e7", "a", "aa", "k\u09DF", "k\u09AF\u09BC",
		model.BiLen, model.BiInputLatin, model.BiKeys} // ... and names of built-ins (plain identifiers as far as an object is concerned)
	c.Bound("confusable_names", len(pool))
	id, num := model.Id, model.Num
	runNames := func(names []string, viaAssign bool) {
		var vals []*model.N
		for i := range names {
			vals = append(vals, num(float64(i+1)))
		}
		var prog []*model.N
		if viaAssign {
			prog = append(prog, model.Var("o", model.Obj(nil, nil)))
			for i, n := range names {
				prog = append(prog, model.ExprS(model.PAsg(id("o"), n, vals[i])))
			}
		} else {
			prog = append(prog, model.Var("o", model.Obj(names, vals)))
		}
		prog = append(prog, model.Print(id("o")))
		prog = append(prog, objListing("o")...)
		for _, n := range names {
			prog = append(prog, model.Print(model.Prop(id("o"), n)))
		}
		prog = append(prog, model.ExprS(model.CallN(model.BiDelete, id("o"), model.Str(names[0]))), model.Print(id("o")))
		prog = append(prog, objListing("o")...)
		prog = append(prog, model.ExprS(model.PAsg(id("o"), names[0], num(9))), model.Print(id("o")))
		prog = append(prog, objListing("o")...)
		prog = parenAll(prog)
		src := model.Render(prog)
		res := (&model.Machine{}).Run(prog)
		if res.Unspec != "" || res.Diverged || res.Err != nil {
			c.Skip("unspecified: " + res.Unspec)
			return
		}
		n, _ := exploreChoices(c, func(prefix []int) h.Outcome {
			return h.RunFile(src, h.Opts{Prefix: prefix, Fuel: fuelFor(res)})
		}, bound, func(prefix []int, o h.Outcome) {
			c.Eval(fmt.Sprint(prefix)+src, true)
			c.Outcome(o.Stdout)
			base := fw.Replay{Mode: "file", Program: src, Choices: append([]int{}, prefix...), CLI: len(prefix) == 0, InStdout: o.Stdout, InStderr: o.Stderr, InStatus: o.Status}
			if abnormal(c, o, "file", src, base) {
				return
			}
			why := ""
			if o.Stderr != "" || o.Status != 0 {
				why = fmt.Sprintf("status %d stderr %q", o.Status, trunc(o.Stderr, 100))
			} else {
				why = compareObjOutput(res.Stdout(), o.Stdout)
			}
			if why != "" {
				r := base
				r.Sig = "C12|confusable-names"
				if len(prefix) > 0 {
					r.Sig += "|scheduled"
				}
				r.What = "an object whose property names are easily confused: printing, listing (pairing and completeness), reading, removing"
				r.Expected, r.Observed = res.Stdout(), o.Stdout+" ("+why+")"+fmt.Sprintf(" schedule %v", prefix)
				c.Violate(r)
			}
		})
		c.Add("schedules", int64(n))
		c.R.States++
		c.R.Transitions += int64(n)
	}
	for i, a := range pool {
		for j, b := range pool {
			if i == j || !c.Mine() {
				continue
			}
			runNames([]string{a, b}, false)
			runNames([]string{a, b}, true)
		}
	}
	small := pool[:8]
	if c.Quick() {
		small = pool[:5]
	}
	for i, a := range small {
		for j, b := range small {
			for k, d := range small {
				if i == j || j == k || i == k || !c.Mine() {
					continue
				}
				runNames([]string{a, b, d}, false)
			}
		}
	}
}

func objHist(hist []int, ops []objOp) string {
	var s []string
	for _, o := range hist {
		s = append(s, ops[o].Name)
	}
	return strings.Join(s, " ; ")
}

func objClass(n string) string {
	switch {
	case strings.Contains(n, model.BiDelete):
		return "delete"
	case strings.HasPrefix(n, "read"):
		return "read"
	case strings.Contains(n, " on "):
		return "non-object"
	case strings.Contains(n, "={"):
		return "literal"
	case strings.Contains(n, "poke"), strings.Contains(n, "arr="):
		return "alias"
	case strings.Contains(n, "="):
		return "write"
	}
	return "other"
}

func objCyclic(v model.Value, path map[interface{}]bool) bool {
	switch x := v.(type) {
	case *model.ObjV:
		if path[x] {
			return true
		}
		path[x] = true
		defer delete(path, x)
		for _, e := range x.M {
			if objCyclic(e, path) {
				return true
			}
		}
	case *model.ArrV:
		if path[x] {
			return true
		}
		path[x] = true
		defer delete(path, x)
		for _, e := range x.E {
			if objCyclic(e, path) {
				return true
			}
		}
	}
	return false
}

func (cn *canon) modelObj(v model.Value) {
	switch x := v.(type) {
	case float64:
		cn.num(x)
	case *model.ObjV:
		if id, ok := cn.ids[x]; ok {
			fmt.Fprintf(&cn.sb, "@%d", id)
			return
		}
		cn.ids[x] = len(cn.ids)
		ks := append([]string{}, x.Keys...)
		sort.Strings(ks)
		cn.sb.WriteString("{")
		for _, k := range ks {
			cn.sb.WriteString(k + ":")
			cn.modelObj(x.M[k])
			cn.sb.WriteString(",")
		}
		cn.sb.WriteString("}")
	case *model.ArrV:
		if id, ok := cn.ids[x]; ok {
			fmt.Fprintf(&cn.sb, "@%d", id)
			return
		}
		cn.ids[x] = len(cn.ids)
		cn.sb.WriteString("[")
		for _, e := range x.E {
			cn.modelObj(e)
			cn.sb.WriteString(",")
		}
		cn.sb.WriteString("]")
	default:
		cn.sb.WriteString(model.Text(v))
	}
}

func (cn *canon) implObj(v interface{}) {
	switch x := v.(type) {
	case float64:
		cn.num(x)
	case map[string]interface{}:
		p := reflect.ValueOf(x).Pointer()
		if id, ok := cn.ids[p]; ok {
			fmt.Fprintf(&cn.sb, "@%d", id)
			return
		}
		cn.ids[p] = len(cn.ids)
		ks := make([]string, 0, len(x))
		for k := range x {
			ks = append(ks, k)
		}
		sort.Strings(ks)
		cn.sb.WriteString("{")
		for _, k := range ks {
			cn.sb.WriteString(k + ":")
			cn.implObj(x[k])
			cn.sb.WriteString(",")
		}
		cn.sb.WriteString("}")
	case []interface{}:
		cn.sb.WriteString("[")
		for _, e := range x {
			cn.implObj(e)
			cn.sb.WriteString(",")
		}
		cn.sb.WriteString("]")
	default:
		fmt.Fprintf(&cn.sb, "%v", v)
	}
}

package checks

import (
	"verif/internal/fw"
	"verif/internal/model"
)

// progPool keeps an evenly spread sub-sequence of the programs a shard
// enumerates: every stride-th one; when twice the wanted number has been
// kept, every other one is dropped and the stride doubles.
type progPool struct {
	want   int
	stride int
	n      int
	progs  [][]*model.N
}

func newProgPool(want int) *progPool { return &progPool{want: want, stride: 1} }

func (p *progPool) offer(prog []*model.N) {
	p.n++
	if p.n%p.stride != 0 {
		return
	}
	p.progs = append(p.progs, cloneProg(prog))
	if len(p.progs) >= 2*p.want {
		var half [][]*model.N
		for i := 1; i < len(p.progs); i += 2 {
			half = append(half, p.progs[i])
		}
		p.progs = half
		p.stride *= 2
	}
}

// composePairs: every ordered pair (P, Q) of the pool run as one program
// `{ P } { Q }` -- the blocks keep their declarations apart -- and judged
// against the reference model: whatever P leaves behind in the interpreter (a
// flag, a memo, a reused buffer, a counter) must not show in Q.  The pool is
// the shard's own (see progPool), so every shard composes all its pairs.
func composePairs(c *fw.Ctx, sig string, pool *progPool, jo judgeOpts) {
	c.Add("composition_pool_programs", int64(len(pool.progs)))
	jo.SigPrefix = "composition|" + sig
	jo.NoOneLine = true
	for i := range pool.progs {
		for j := range pool.progs {
			prog := []*model.N{model.Block(cloneProg(pool.progs[i])...), model.Block(cloneProg(pool.progs[j])...)}
			_, _, skipped := judge(c, prog, jo)
			c.Count("composed_pairs")
			if !skipped {
				c.R.States++
				c.R.Transitions++
			}
		}
	}
}

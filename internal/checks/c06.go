package checks

import (
	"fmt"
	"strings"

	"verif/internal/fw"
	"verif/internal/h"
	"verif/internal/model"
)

func init() { Registry["C06"] = C06 }

type c06Fault struct {
	Name string
	E    func() *model.N   // expression form (nil if statement-only)
	St   func() []*model.N // statement form (nil if expression)
	// Stray: break/continue/return — only in positions outside loops/functions
	Stray bool
}

func c06Faults() []c06Fault {
	n, id := model.Num, model.Id
	e := func(name string, f func() *model.N) c06Fault { return c06Fault{Name: name, E: f} }
	fs := []c06Fault{
		e("undefined-name", func() *model.N { return id("qq") }),
		e("undefined-assign", func() *model.N { return model.Asg("qq", n(1)) }),
		{Name: "redeclaration", St: func() []*model.N { return []*model.N{model.Var("d", n(1)), model.Var("d", n(2))} }},
		{Name: "redeclaration-of-unset", St: func() []*model.N { return []*model.N{model.Var("d", nil), model.Var("d", n(2))} }},
		{Name: "redeclaration-of-nil", St: func() []*model.N {
			return []*model.N{model.Var("d", n(1)), model.ExprS(model.Asg("d", model.Nil())), model.VarList([]string{"e", "d"}, []*model.N{n(3), n(4)})}
		}},
		e("nil+1", func() *model.N { return model.Bin("+", model.Nil(), n(1)) }),
		e("minus-string", func() *model.N { return model.Un("-", model.Str("s")) }),
		e("divide-by-zero", func() *model.N { return model.Bin("/", n(1), n(0)) }),
		e("modulo-zero", func() *model.N { return model.Bin("%", n(1), n(0)) }),
		e("negative-shift", func() *model.N { return model.Bin("<<", n(1), model.Un("-", n(1))) }),
		e("index-high", func() *model.N { return model.Idx(model.Arr(n(1)), n(5)) }),
		e("index-negative", func() *model.N { return model.Idx(model.Arr(n(1)), model.Un("-", n(1))) }),
		e("index-fraction", func() *model.N { return model.Idx(model.Arr(n(1)), n(0.5)) }),
		e("index-non-array", func() *model.N { return model.Idx(n(1), n(0)) }),
		e("store-out-of-range", func() *model.N { return model.IAsg(model.Arr(n(1)), n(5), n(0)) }),
		e("missing-property", func() *model.N { return model.Prop(id("o"), "zz") }),
		e("property-of-number", func() *model.N { return model.Prop(n(1), "zz") }),
		e("property-store-on-number", func() *model.N { return model.PAsg(id("o2"), "zz", n(1)) }),
		e("call-non-function", func() *model.N { return model.Call(n(1), n(2)) }),
		e("arity", func() *model.N { return model.CallN("f1", n(1), n(2)) }),
		// the same three call faults with the callee written as an element, a property, a call result, a group
		e("arity-via-element", func() *model.N { return model.Call(model.Idx(id("farr"), n(0)), n(1), n(2)) }),
		e("arity-via-property", func() *model.N { return model.Call(model.Prop(id("fobj"), "f"), n(1), n(2)) }),
		e("arity-via-call-result", func() *model.N { return model.Call(model.CallN("getf"), n(1), n(2)) }),
		e("arity-via-group", func() *model.N { return model.Call(model.Grp(id("f1")), n(1), n(2)) }),
		e("call-non-function-element", func() *model.N { return model.Call(model.Idx(id("arr"), n(1)), n(2)) }),
		e("call-non-function-property", func() *model.N { return model.Call(model.Prop(id("o"), "k"), n(2)) }),
		e("call-non-function-call-result", func() *model.N { return model.Call(model.CallN("f1", n(3)), n(2)) }),
		e("builtin-failing-via-element", func() *model.N { return model.Call(model.Idx(model.Arr(id(model.BiLen)), n(0)), n(7)) }),
		e("builtin-failing-via-property", func() *model.N { return model.Call(model.Prop(model.Grp(model.Obj([]string{"m"}, []*model.N{id(model.BiSqrt)})), "m"), model.Str("x")) }),
		e("builtin-wrong-kind", func() *model.N { return model.CallN(model.BiLen, n(1)) }),
		e("builtin-wrong-count", func() *model.N { return model.CallN(model.BiSqrt) }),
		e("delete-missing-key", func() *model.N { return model.CallN(model.BiDelete, id("o"), model.Str("zz")) }),
		// faults whose diagnostic may quote program text: that text made of characters that are special to
		// message formatting (format verbs, escapes, a fake line tag)
		e("missing-property-on-modulo-expression", func() *model.N { return model.Prop(model.Idx(id("arr2"), model.Bin("%", n(3), n(2))), "zz") }),
		e("missing-property-on-long-expression", func() *model.N {
			return model.Prop(model.Idx(id("arr2"), model.Bin("%", model.Grp(model.Bin("*", n(3), n(7))), model.Grp(model.Bin("-", n(9), n(7))))), "zz")
		}),
	}
	for _, txt := range append([]string{"%d", "%s", "100%", "%!v(", "%%", "%[1]d", "a\\b", "[line 99]", "%v %v %v"}, c06OtherTexts...) {
		txt := txt
		fs = append(fs,
			e("minus-text:"+txt, func() *model.N { return model.Un("-", model.Str(txt)) }),
			e("text-minus-one:"+txt, func() *model.N { return model.Bin("-", model.Str(txt), n(1)) }),
			e("delete-missing-key-text:"+txt, func() *model.N { return model.CallN(model.BiDelete, id("o"), model.Str(txt)) }),
			e("call-text:"+txt, func() *model.N { return model.Call(model.Str(txt), n(2)) }),
			e("property-of-text:"+txt, func() *model.N { return model.Prop(model.Str(txt), "zz") }),
			e("sqrt-of-text:"+txt, func() *model.N { return model.CallN(model.BiSqrt, model.Str(txt)) }),
			e("text-as-index:"+txt, func() *model.N { return model.Idx(id("arr"), model.Str(txt)) }),
		)
	}
	// every misuse of a built-in the reference model calls an error: each built-in on each single argument
	// of a small pool (empty, emptied and one-element arrays, number, text, nil, empty object, function)
	{
		pool := []struct {
			n string
			f func() *model.N
		}{
			{"[]", func() *model.N { return model.Arr() }},
			{"emptied", func() *model.N { return model.CallN(model.BiRemove, model.Arr(n(1)), n(0)) }},
			{"[1]", func() *model.N { return model.Arr(n(1)) }},
			{"[text]", func() *model.N { return model.Arr(model.Str("s")) }},
			{"5", func() *model.N { return n(5) }},
			{"text", func() *model.N { return model.Str("s") }},
			{"nil", model.Nil},
			{"{}", func() *model.N { return model.Obj(nil, nil) }},
			{"function", func() *model.N { return id("f1") }},
		}
		for _, b := range model.Builtins {
			if b == model.BiInput || b == model.BiInputLatin {
				continue
			}
			for _, a := range pool {
				b, a := b, a
				mk := func() *model.N { return model.CallN(b, a.f()) }
				res := (&model.Machine{}).Run(parenAll(append(c06Prelude(), model.ExprS(mk()))))
				if res.Err != nil && res.Unspec == "" {
					fs = append(fs, e("builtin-misuse:"+b+":"+a.n, mk))
				}
			}
		}
	}
	return append(fs,
		c06Fault{Name: "stray-break", St: func() []*model.N { return []*model.N{model.Break()} }, Stray: true},
		c06Fault{Name: "stray-continue", St: func() []*model.N { return []*model.N{model.Continue()} }, Stray: true},
		c06Fault{Name: "stray-return", St: func() []*model.N { return []*model.N{model.Return(n(1))} }, Stray: true})
}

func c06Prelude() []*model.N {
	n, id := model.Num, model.Id
	return []*model.N{
		model.Fun("p", []string{"t", "v"}, model.Print(id("t")), model.Return(id("v"))),
		model.Fun("g2", []string{"a", "b"}, model.Print(model.Str("in-g2")), model.Return(id("a"))),
		model.Fun("f1", []string{"a"}, model.Return(id("a"))),
		model.Var("o", model.Obj([]string{"k"}, []*model.N{n(1)})),
		model.Var("o2", n(5)),
		model.Var("arr", model.Arr(n(10), n(20), n(30))),
		model.Var("farr", model.Arr(id("f1"))), model.Var("fobj", model.Obj([]string{"f"}, []*model.N{id("f1")})), model.Fun("getf", nil, model.Return(id("f1"))),
		model.Var("arr2", model.Arr(model.Obj([]string{"k"}, []*model.N{n(1)}), model.Obj([]string{"k"}, []*model.N{n(2)}))),
		model.Var("v", n(0)),
	}
}

type c06Pos struct {
	Name    string
	StmtPos bool // accepts statement-form faults
	InLoop  bool // inside a loop or function (stray faults are not stray there)
	Mk      func(fe func() *model.N, fs func() []*model.N) []*model.N
}

func c06Positions() []c06Pos {
	n, id := model.Num, model.Id
	P := func(tag string, v *model.N) *model.N { return model.CallN("p", model.Str(tag), v) }
	A, B, X := func() *model.N { return T("A") }, func() *model.N { return T("B") }, func() *model.N { return T("X") }
	sp := func(name string, inLoop bool, mk func(f []*model.N) []*model.N) c06Pos {
		return c06Pos{Name: name, StmtPos: true, InLoop: inLoop, Mk: func(fe func() *model.N, fs func() []*model.N) []*model.N {
			var f []*model.N
			if fs != nil {
				f = fs()
			} else {
				f = []*model.N{model.ExprS(fe())}
			}
			return mk(f)
		}}
	}
	ep := func(name string, mk func(e *model.N) []*model.N) c06Pos {
		return c06Pos{Name: name, Mk: func(fe func() *model.N, fs func() []*model.N) []*model.N { return mk(fe()) }}
	}
	cat := func(parts ...[]*model.N) []*model.N {
		var out []*model.N
		for _, p := range parts {
			out = append(out, p...)
		}
		return out
	}
	one := func(s ...*model.N) []*model.N { return s }
	incr := func(v string) *model.N { return model.Asg(v, model.Bin("+", id(v), n(1))) }
	return []c06Pos{
		sp("top", false, func(f []*model.N) []*model.N { return cat(one(A()), f, one(B())) }),
		sp("block", false, func(f []*model.N) []*model.N { return one(A(), model.Block(cat(f, one(B()))...)) }),
		sp("then", false, func(f []*model.N) []*model.N {
			return one(model.If(model.Bool(true), model.Block(cat(f, one(B()))...), model.Block(X())))
		}),
		sp("else", false, func(f []*model.N) []*model.N {
			return one(model.If(model.Bool(false), model.Block(X()), model.Block(cat(f, one(B()))...)))
		}),
		sp("while-body", true, func(f []*model.N) []*model.N {
			return one(model.Var("i", n(0)), model.While(model.Bin("<", id("i"), n(3)), model.Block(cat(one(model.ExprS(incr("i")), A()), f, one(B()))...)))
		}),
		sp("while-true-body", true, func(f []*model.N) []*model.N {
			return one(model.Var("i", n(0)), model.While(model.Bool(true), model.Block(cat(one(model.ExprS(incr("i")), model.If(model.Bin(">", id("i"), n(3)), model.Break(), nil)), f, one(B()))...)))
		}),
		sp("for-body", true, func(f []*model.N) []*model.N {
			return one(model.For(model.Var("i", n(0)), model.Bin("<", id("i"), n(3)), incr("i"), model.Block(cat(one(A()), f, one(B()))...)))
		}),
		sp("for-true-body", true, func(f []*model.N) []*model.N {
			return one(model.For(model.Var("i", n(0)), nil, incr("i"), model.Block(cat(one(model.If(model.Bin(">", id("i"), n(3)), model.Break(), nil)), f, one(B()))...)))
		}),
		sp("function-body", true, func(f []*model.N) []*model.N {
			return one(model.Fun("ff", nil, cat(one(A()), f, one(B(), model.Return(n(1))))...), model.Var("r", model.CallN("ff")), B())
		}),
		ep("if-condition", func(e *model.N) []*model.N { return one(model.If(e, model.Block(B()), model.Block(X()))) }),
		ep("while-condition", func(e *model.N) []*model.N { return one(model.While(e, model.Block(B(), model.Break()))) }),
		ep("for-initialiser", func(e *model.N) []*model.N {
			return one(model.For(model.ExprS(e), model.Bin("<", id("v"), n(3)), incr("v"), model.Block(B())))
		}),
		ep("for-var-initialiser", func(e *model.N) []*model.N {
			return one(model.For(model.Var("i", e), model.Bin("<", id("v"), n(3)), incr("v"), model.Block(B())))
		}),
		ep("for-condition", func(e *model.N) []*model.N {
			return one(model.For(model.Var("i", n(0)), e, incr("i"), model.Block(B())))
		}),
		ep("for-increment", func(e *model.N) []*model.N {
			return one(model.For(model.Var("i", n(0)), model.Bin("<", id("i"), n(3)), e, model.Block(A(), model.ExprS(incr("i")))))
		}),
		ep("for-true-increment", func(e *model.N) []*model.N {
			return one(model.For(model.Var("i", n(0)), nil, e, model.Block(A(), model.ExprS(incr("i")), model.If(model.Bin(">", id("i"), n(3)), model.Break(), nil))))
		}),
		ep("return-value", func(e *model.N) []*model.N {
			return one(model.Fun("ff", nil, model.Return(e)), model.Var("r", model.CallN("ff")), B())
		}),
		ep("argument-1", func(e *model.N) []*model.N { return one(model.ExprS(model.CallN("g2", e, P("B", n(1))))) }),
		ep("argument-2", func(e *model.N) []*model.N { return one(model.ExprS(model.CallN("g2", P("A", n(1)), e))) }),
		ep("builtin-argument", func(e *model.N) []*model.N {
			return one(model.ExprS(model.CallN(model.BiInput, model.Bin("+", model.Str("P"), e))))
		}),
		ep("callee", func(e *model.N) []*model.N { return one(model.ExprS(model.Call(model.Grp(e), P("B", n(1))))) }),
		ep("array-element", func(e *model.N) []*model.N { return one(model.ExprS(model.Arr(P("A", n(1)), e, P("B", n(2))))) }),
		ep("object-value", func(e *model.N) []*model.N {
			return one(model.Var("t", model.Obj([]string{"a", "b", "c"}, []*model.N{P("A", n(1)), e, P("B", n(2))})))
		}),
		ep("index-expression", func(e *model.N) []*model.N { return one(model.Print(model.Idx(id("arr"), e))) }),
		ep("store-index", func(e *model.N) []*model.N {
			return one(model.ExprS(model.IAsg(id("arr"), e, P("B", n(1)))), model.Print(id("arr")))
		}),
		ep("store-value", func(e *model.N) []*model.N {
			return one(model.ExprS(model.IAsg(id("arr"), n(0), e)), model.Print(id("arr")))
		}),
		ep("property-store-value", func(e *model.N) []*model.N {
			return one(model.ExprS(model.PAsg(id("o"), "k", e)), model.Print(id("o")))
		}),
		ep("left-operand", func(e *model.N) []*model.N { return one(model.Print(model.Bin("+", e, P("B", n(1))))) }),
		ep("right-operand", func(e *model.N) []*model.N { return one(model.Print(model.Bin("+", P("A", n(1)), e))) }),
		ep("logical-left", func(e *model.N) []*model.N { return one(model.Print(model.Log(model.KwOr, e, P("B", n(1))))) }),
		ep("logical-right-or", func(e *model.N) []*model.N { return one(model.Print(model.Log(model.KwOr, model.Bool(false), e))) }),
		ep("logical-right-and", func(e *model.N) []*model.N { return one(model.Print(model.Log("&&", model.Bool(true), e))) }),
		ep("unary-operand", func(e *model.N) []*model.N { return one(model.Print(model.Un("!", e))) }),
		ep("print-operand", func(e *model.N) []*model.N { return one(model.Print(e)) }),
		ep("declaration-initialiser", func(e *model.N) []*model.N { return one(model.Var("w", e), model.Print(id("w"))) }),
		ep("second-declaration-initialiser", func(e *model.N) []*model.N {
			return one(model.VarList([]string{"w", "w2", "w3"}, []*model.N{P("A", n(1)), e, P("B", n(2))}), model.Print(id("w")))
		}),
		ep("assignment-value", func(e *model.N) []*model.N { return one(model.ExprS(model.Asg("v", e)), model.Print(id("v"))) }),
	}
}

// enclose wraps statements in one further construct.
func c06Enclose(kind string, lvl int, inner []*model.N) []*model.N {
	n, id := model.Num, model.Id
	tag := fmt.Sprintf("E%d", lvl)
	body := append(append([]*model.N{T(tag + "-in")}, inner...), T(tag+"-after"))
	switch kind {
	case "block":
		return []*model.N{model.Block(body...), T(tag + "-out")}
	case "if":
		return []*model.N{model.If(model.Bool(true), model.Block(body...), nil), T(tag + "-out")}
	case "while":
		w := fmt.Sprintf("ew%d", lvl)
		b := append([]*model.N{model.ExprS(model.Asg(w, model.Bin("+", id(w), n(1))))}, body...)
		return []*model.N{model.Var(w, n(0)), model.While(model.Bin("<", id(w), n(3)), model.Block(b...)), T(tag + "-out")}
	case "for":
		j := fmt.Sprintf("ej%d", lvl)
		return []*model.N{model.For(model.Var(j, n(0)), model.Bin("<", id(j), n(3)), model.Asg(j, model.Bin("+", id(j), n(1))), model.Block(body...)), T(tag + "-out")}
	case "function":
		f := fmt.Sprintf("ef%d", lvl)
		return []*model.N{model.Fun(f, nil, body...), model.ExprS(model.CallN(f)), T(tag + "-out")}
	}
	panic(kind)
}

func C06(c *fw.Ctx) {
	depth := 2
	if !c.Quick() {
		depth = 3
	}
	if c.Tier == "deep" {
		depth = 4
	}
	faults := c06Faults()
	poss := c06Positions()
	c.Bound("fault_kinds", len(faults))
	c.Bound("positions", len(poss))
	c.Bound("enclosure_depth", depth)
	c.R.Rule = "every fault kind planted at every syntactic position, under every enclosure path up to the depth bound over {block, if, while, for, function}; every program prints before the fault and at every level after it, loops would continue for further iterations, an ইনপুট with a prompt and available stdin follows; compared: stdout (model), first diagnostic (= the diagnostic the same fault gives alone at top level, differential), its line, no read of stdin, termination (fuel), status 70; plus the fault-free twin; distinct by program text"
	// calibration of each fault alone at top level
	cal := map[string]string{}
	for _, f := range faults {
		var prog []*model.N
		if f.E != nil {
			prog = append(c06Prelude(), model.ExprS(f.E()))
		} else {
			prog = append(c06Prelude(), f.St()...)
		}
		o := h.RunFile(model.Render(parenAll(prog)), h.Opts{})
		if o.Panic == "" && !o.Diverged && o.Stderr != "" {
			cal[f.Name] = diagMessage(o.Stderr, "")
		}
	}
	encl := []string{"block", "if", "while", "for", "function"}
	// line structure before the fault: a printed string literal that spans lines (plain, a backslash before
	// the line end, quotes of comments inside, a carriage return) precedes every fault at the top level and in
	// a function body; the diagnostic must still name the line of the fault
	{
		noise := []string{"a\nb", "a\\\nb", "\\\n", "x\\", "\\\\\n\\", "/*\n", "//\n*/", "a\r\nb", "\n\n\n", "tab\t\\\nq"}
		for ni, nz := range noise {
			for _, f := range faults {
				if f.E == nil || strings.HasPrefix(f.Name, "builtin-misuse:") || strings.Contains(f.Name, "text") {
					continue
				}
				for where := 0; where < 2; where++ {
					if !c.Mine() {
						continue
					}
					var prog []*model.N
					if where == 0 {
						prog = append(c06Prelude(), model.Print(model.Str(nz)), T("begin"), model.ExprS(f.E()), T("never"))
					} else {
						prog = append(c06Prelude(), model.Fun("wrapf", nil, model.Print(model.Str(nz)), T("begin"), model.ExprS(f.E()), T("never")), model.ExprS(model.CallN("wrapf")))
					}
					judge(c, prog, judgeOpts{SigPrefix: fmt.Sprintf("multi-line-string-before|%s|noise%d", f.Name, ni), NoKind: true, NoOneLine: true, NoPrompt: true, NoTwice: true})
					c.R.States++
				}
			}
		}
	}
	// what ran before: a clean history of one of a pool of kinds (closures that outlive a block, a loop
	// body, a call; recursion; containers built, aliased and emptied; loops left by break and continue; names
	// shadowed and released) precedes every fault, at the top level and in a function; each history alone is
	// a clean program (no diagnostic, status 0), with a fault after it the fault is the first diagnostic
	{
		n, id := model.Num, model.Id
		histories := []struct {
			name string
			mk   func() []*model.N
		}{
			{"closure-outlives-block", func() []*model.N {
				return []*model.N{model.Var("hh", model.Nil()), model.Block(model.Var("secret", n(42)), model.Fun("reveal", nil, model.Return(id("secret"))), model.ExprS(model.Asg("hh", id("reveal")))), T("left"), model.Print(model.CallN("hh"))}
			}},
			{"closures-made-in-loop", func() []*model.N {
				return []*model.N{model.Var("fns", model.Arr()),
					model.For(model.Var("i", n(0)), model.Bin("<", id("i"), n(3)), model.Asg("i", model.Bin("+", id("i"), n(1))), model.Block(
						model.Var("sq", model.Bin("*", id("i"), id("i"))), model.Fun("get", nil, model.Return(id("sq"))), model.ExprS(model.Asg("fns", model.CallN(model.BiAppend, id("fns"), id("get")))))),
					model.Print(model.Bin("+", model.Bin("+", model.Call(model.Idx(id("fns"), n(0))), model.Call(model.Idx(id("fns"), n(1)))), model.Call(model.Idx(id("fns"), n(2)))))}
			}},
			{"closure-outlives-call", func() []*model.N {
				return []*model.N{model.Fun("mk", []string{"s"}, model.Fun("inc", nil, model.ExprS(model.Asg("s", model.Bin("+", id("s"), n(1)))), model.Return(id("s"))), model.Return(id("inc"))),
					model.Var("c1", model.CallN("mk", n(10))), model.Var("c2", model.CallN("mk", n(20))), model.Print(model.Arr(model.CallN("c1"), model.CallN("c2"), model.CallN("c1")))}
			}},
			{"closure-outlives-branch-and-while", func() []*model.N {
				return []*model.N{model.Var("hs", model.Arr()), model.Var("k", n(0)),
					model.While(model.Bin("<", id("k"), n(2)), model.Block(model.If(model.Bool(true), model.Block(model.Var("loc", model.Bin("+", id("k"), n(100))), model.Fun("rd", nil, model.Return(id("loc"))), model.ExprS(model.Asg("hs", model.CallN(model.BiAppend, id("hs"), id("rd"))))), nil),
						model.ExprS(model.Asg("k", model.Bin("+", id("k"), n(1)))))),
					model.Print(model.Arr(model.Call(model.Idx(id("hs"), n(0))), model.Call(model.Idx(id("hs"), n(1)))))}
			}},
			{"recursion", func() []*model.N {
				return []*model.N{model.Fun("fib", []string{"m"}, model.If(model.Bin("<", id("m"), n(2)), model.Block(model.Return(id("m"))), nil), model.Return(model.Bin("+", model.CallN("fib", model.Bin("-", id("m"), n(1))), model.CallN("fib", model.Bin("-", id("m"), n(2)))))), model.Print(model.CallN("fib", n(10)))}
			}},
			{"containers", func() []*model.N {
				return []*model.N{model.Var("xs", model.Arr(n(1))), model.Var("ys", id("xs")), model.ExprS(model.Asg("xs", model.CallN(model.BiAppend, id("xs"), n(2)))), model.ExprS(model.Asg("xs", model.CallN(model.BiRemove, id("xs"), n(0)))),
					model.ExprS(model.Asg("xs", model.CallN(model.BiRemove, id("xs"), n(0)))), model.Print(model.Arr(id("xs"), id("ys"), model.CallN(model.BiLen, id("xs")))),
					model.Var("ob", model.Obj([]string{"a"}, []*model.N{n(1)})), model.ExprS(model.CallN(model.BiDelete, id("ob"), model.Str("a"))), model.Print(model.CallN(model.BiKeys, id("ob")))}
			}},
			{"loops-left-early", func() []*model.N {
				return []*model.N{model.Var("m", n(0)), model.While(model.Bool(true), model.Block(model.ExprS(model.Asg("m", model.Bin("+", id("m"), n(1)))), model.If(model.Bin("<", id("m"), n(3)), model.Block(model.Continue()), nil), model.Break())),
					model.For(model.Var("j", n(0)), model.Bin("<", id("j"), n(3)), model.Asg("j", model.Bin("+", id("j"), n(1))), model.Block(model.If(model.Bin("==", id("j"), n(1)), model.Block(model.Continue()), nil), model.Print(id("j")))), model.Print(id("m"))}
			}},
			{"shadowing", func() []*model.N {
				return []*model.N{model.Var("sx", n(1)), model.Block(model.Var("sx", n(2)), model.Block(model.Var("sx", n(3)), model.Print(id("sx"))), model.Print(id("sx"))), model.Print(id("sx")),
					model.Fun("sf", []string{"sx"}, model.Block(model.Var("sx", n(9)), model.Print(id("sx"))), model.Return(id("sx"))), model.Print(model.CallN("sf", n(5))), model.Print(id("sx"))}
			}},
		}
		for _, hst := range histories {
			if c.Mine() {
				prog := append(c06Prelude(), T("begin"))
				prog = append(prog, hst.mk()...)
				prog = append(prog, T("end"))
				judge(c, prog, judgeOpts{SigPrefix: "history-alone|" + hst.name})
				c.R.States++
			}
			for _, f := range faults {
				if f.E == nil || strings.HasPrefix(f.Name, "builtin-misuse:") {
					continue
				}
				for where := 0; where < 2; where++ {
					if !c.Mine() {
						continue
					}
					var prog []*model.N
					body := append([]*model.N{T("begin")}, hst.mk()...)
					body = append(body, T("before-fault"), model.ExprS(f.E()), T("never"))
					if where == 0 {
						prog = append(c06Prelude(), body...)
					} else {
						prog = append(c06Prelude(), model.Fun("wrapf", nil, body...), model.ExprS(model.CallN("wrapf")), T("never-either"))
					}
					judge(c, prog, judgeOpts{SigPrefix: "history-before|" + hst.name + "|" + f.Name, NoKind: true})
					c.R.States++
				}
			}
		}
	}
	// the faulty value was used legally before: a text of a pool (ASCII, Bangla, accented, digits of both
	// scripts with a unit, blank-padded) takes part in every operation that accepts it (joined to a number on
	// either side, compared, shown, stored, passed) and is then the operand of each operation that must
	// refuse it; the legal uses print what the model says and the refusal is the first diagnostic
	{
		n, id := model.Num, model.Id
		legal := []struct {
			name string
			mk   func(t *model.N) *model.N
		}{
			{"number-plus-text", func(t *model.N) *model.N { return model.Bin("+", n(3), t) }},
			{"text-plus-number", func(t *model.N) *model.N { return model.Bin("+", t, n(3)) }},
			{"equals-number", func(t *model.N) *model.N { return model.Bin("==", t, n(0)) }},
			{"in-array", func(t *model.N) *model.N { return model.Arr(t, n(1)) }},
			{"through-function", func(t *model.N) *model.N { return model.CallN("f1", t) }},
			{"truthiness", func(t *model.N) *model.N { return model.Log("&&", t, n(1)) }},
		}
		refused := []struct {
			name string
			mk   func(t *model.N) *model.N
		}{
			{"times-two", func(t *model.N) *model.N { return model.Bin("*", t, n(2)) }},
			{"minus", func(t *model.N) *model.N { return model.Un("-", t) }},
			{"less-than", func(t *model.N) *model.N { return model.Bin("<", n(1), t) }},
			{"divisor", func(t *model.N) *model.N { return model.Bin("/", n(10), t) }},
			{"index", func(t *model.N) *model.N { return model.Idx(id("arr"), t) }},
			{"sqrt", func(t *model.N) *model.N { return model.CallN(model.BiSqrt, t) }},
			{"shift", func(t *model.N) *model.N { return model.Bin("<<", t, n(1)) }},
		}
		for ti, txt := range append([]string{"s", "abc"}, c06OtherTexts...) {
			for _, lg := range legal {
				for _, rf := range refused {
					for form := 0; form < 2; form++ {
						if !c.Mine() {
							continue
						}
						var t func() *model.N
						pre := c06Prelude()
						if form == 0 {
							t = func() *model.N { return model.Str(txt) }
						} else {
							pre = append(pre, model.Var("tv", model.Str(txt)))
							t = func() *model.N { return id("tv") }
						}
						prog := append(pre, T("begin"), model.Print(lg.mk(t())), T("between"), model.ExprS(rf.mk(t())), T("never"))
						judge(c, prog, judgeOpts{SigPrefix: fmt.Sprintf("legal-use-before-refusal|%s|%s|text%d", lg.name, rf.name, ti), NoKind: true})
						c.R.States++
					}
				}
			}
		}
	}
	var path []string
	var rec func()
	rec = func() {
		for _, f := range faults {
			if strings.HasPrefix(f.Name, "builtin-misuse:") && len(path) > 1 {
				continue // the generated built-in misuses: every position, under at most one enclosure
			}
			for pi, pos := range poss {
				if strings.HasPrefix(f.Name, "builtin-misuse:") && len(path) == 1 && pi%4 != 0 {
					continue
				}
				if f.E == nil && !pos.StmtPos {
					continue
				}
				if f.Stray {
					stray := !pos.InLoop
					for _, k := range path {
						if k == "while" || k == "for" || k == "function" {
							stray = false
						}
					}
					if !stray {
						continue
					}
				}
				for twin := 0; twin < 2; twin++ {
					if !c.Mine() {
						continue
					}
					fe, fs := f.E, f.St
					if twin == 1 {
						if f.E != nil {
							fe = func() *model.N { return model.Num(1) }
						} else {
							fs = func() []*model.N { return []*model.N{T("ok")} }
						}
					}
					inner := pos.Mk(fe, fs)
					for lvl := len(path) - 1; lvl >= 0; lvl-- {
						inner = c06Enclose(path[lvl], lvl+1, inner)
					}
					prog := append(c06Prelude(), T("begin"))
					prog = append(prog, inner...)
					prog = append(prog, T("C"), model.ExprS(model.CallN(model.BiInput, model.Str("PROMPT>"))), T("end"))
					sig := f.Name + "|" + pos.Name
					if twin == 1 {
						sig = "twin|" + pos.Name
					}
					o, res, skipped := judge(c, prog, judgeOpts{Stdin: "line one\nline two\n", Lines: []string{"line one", "line two"}, SigPrefix: sig, NoKind: true})
					if skipped {
						continue
					}
					c.R.States++
					if twin == 0 && res.Err != nil && o.Panic == "" && !o.Diverged {
						base := fw.Replay{Mode: "file", Program: model.Render(parenAll(prog)), Stdin: "line one\nline two\n", CLI: true, InStdout: o.Stdout, InStderr: o.Stderr, InStatus: o.Status}
						if want, ok := cal[f.Name]; ok && o.Stderr != "" && diagMessage(o.Stderr, "") != want {
							r := base
							r.Sig = "C06|first-diagnostic|" + sig
							r.What = "the first diagnostic must describe the invalid operation (the one the same fault produces alone at top level)"
							r.Expected, r.Observed = want, diagMessage(o.Stderr, "")
							c.Violate(r)
						}
						if o.StdinReads > 0 || o.StdinPos > 0 {
							r := base
							r.Sig = "C06|reads-input-after-error|" + pos.Name
							r.What = "no built-in may run after the error: stdin was read"
							r.Expected, r.Observed = "0 reads of stdin", fmt.Sprintf("%d reads, %d bytes consumed", o.StdinReads, o.StdinPos)
							c.Violate(r)
						}
					}
					if twin == 0 && res.Err == nil {
						c.HarnessError("C06: model found no fault in " + sig)
					}
				}
			}
		}
		if len(path) == depth {
			return
		}
		for _, k := range encl {
			path = append(path, k)
			rec()
			path = path[:len(path)-1]
		}
	}
	rec()
	c.R.Transitions = c.R.States
	c.R.Traces = c.R.States
	c.Sample(map[string]string{"fault": "divide-by-zero", "position": "for-increment", "enclosure": "while > function"})
}

// c06OtherTexts: texts that are not numbers, outside ASCII or beside digits.
var c06OtherTexts = []string{" \u099f\u09be\u0995\u09be", "\u00e9", "\u09f3", "\u09e7\u09e8 \u099f\u09be", "12 kg", " 7 ", "\u09e6x", "\u0995"}

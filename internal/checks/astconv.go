package checks

import (
	"fmt"
	"sort"

	"github.com/ah-naf/borno/ast"
	"verif/internal/model"
)

// fromAst converts the implementation's tree (walked through its exported
// fields, never through String()) into a model tree.
func fromAst(n interface{}) *model.N {
	switch e := n.(type) {
	case nil:
		return nil
	case *ast.Binary:
		r := model.Bin(e.Operator.Lexeme, fromAst(e.Left), fromAst(e.Right))
		r.Line = e.Line
		return r
	case *ast.Logical:
		return model.Log(e.Operator.Lexeme, fromAst(e.Left), fromAst(e.Right))
	case *ast.Unary:
		r := model.Un(e.Operator.Lexeme, fromAst(e.Right))
		r.Line = e.Line
		return r
	case *ast.Grouping:
		return model.Grp(fromAst(e.Expression))
	case *ast.Literal:
		switch v := e.Value.(type) {
		case nil:
			return model.Nil()
		case bool:
			return model.Bool(v)
		case float64:
			return model.Num(v)
		case []rune:
			return model.Str(string(v))
		case string:
			return model.Str(v)
		}
		return &model.N{K: "?literal", S: fmt.Sprintf("%T", e.Value)}
	case *ast.Identifier:
		return model.Id(e.Name.Lexeme)
	case *ast.Call:
		args := make([]*model.N, len(e.Arguments))
		for i, a := range e.Arguments {
			args[i] = fromAst(a)
		}
		return model.Call(fromAst(e.Callee), args...)
	case *ast.ArrayAccess:
		return model.Idx(fromAst(e.Array), fromAst(e.Index))
	case *ast.PropertyAccess:
		return model.Prop(fromAst(e.Object), e.Property.Lexeme)
	case *ast.ArrayLiteral:
		el := make([]*model.N, len(e.Elements))
		for i, a := range e.Elements {
			el[i] = fromAst(a)
		}
		return model.Arr(el...)
	case *ast.ObjectLiteral:
		keys := make([]string, 0, len(e.Properties))
		for k := range e.Properties {
			keys = append(keys, k)
		}
		sort.Strings(keys)
		vals := make([]*model.N, len(keys))
		for i, k := range keys {
			vals[i] = fromAst(e.Properties[k])
		}
		return model.Obj(keys, vals)
	case *ast.AssignmentStmt:
		return model.Asg(e.Name.Lexeme, fromAst(e.Value))
	case *ast.ArrayAssignment:
		return model.IAsg(fromAst(e.Array), fromAst(e.Index), fromAst(e.Value))
	case *ast.PropertyAssignment:
		return model.PAsg(fromAst(e.Object), e.Property.Lexeme, fromAst(e.Value))
	case *ast.ExpressionStatement:
		return model.ExprS(fromAst(e.Expression))
	case *ast.PrintStatement:
		return model.Print(fromAst(e.Expression))
	case *ast.VarStmt:
		return model.Var(e.Name.Lexeme, fromAstExpr(e.Initializer))
	case *ast.VarListStmt:
		var names []string
		var inits []*model.N
		for i := range e.Declarations {
			names = append(names, e.Declarations[i].Name.Lexeme)
			inits = append(inits, fromAstExpr(e.Declarations[i].Initializer))
		}
		return model.VarList(names, inits)
	case *ast.BlockStmt:
		st := make([]*model.N, len(e.Block))
		for i, s := range e.Block {
			st[i] = fromAst(s)
		}
		return model.Block(st...)
	case *ast.IfStmt:
		return model.If(fromAst(e.Condition), fromAst(e.ThenBranch), fromAstExpr(e.ElseBranch))
	case *ast.While:
		return model.While(fromAst(e.Condition), fromAst(e.Body))
	case *ast.ForStmt:
		return model.For(fromAstExpr(e.Initializer), fromAstExpr(e.Condition), fromAstExpr(e.Increment), fromAst(e.Body))
	case *ast.BreakStmt:
		return model.Break()
	case *ast.ContinueStmt:
		return model.Continue()
	case *ast.Return:
		return model.Return(fromAstExpr(e.Value))
	case *ast.FunctionStmt:
		params := make([]string, len(e.Params))
		for i, p := range e.Params {
			params[i] = p.Lexeme
		}
		body := make([]*model.N, len(e.Body))
		for i, s := range e.Body {
			body[i] = fromAst(s)
		}
		return model.Fun(e.Name.Lexeme, params, body...)
	}
	return &model.N{K: "?node", S: fmt.Sprintf("%T", n)}
}

// fromAstExpr handles interface values holding typed nil pointers / nil.
func fromAstExpr(e ast.Expr) *model.N {
	if e == nil {
		return nil
	}
	return fromAst(e)
}

package checks

import (
	"fmt"
	"strings"

	"verif/internal/fw"
	"verif/internal/model"
)

func init() { Registry["C03"] = C03 }

// An event is one step of a scope history (DESIGN Appendix D.1).
type scEvent struct {
	Op   string // decl asg read open openif openwh openfor openfun close call mkclo callclo
	Name string
}

func (e scEvent) String() string {
	if e.Name != "" {
		return e.Op + ":" + e.Name
	}
	return e.Op
}

// frame is an open construct while building the program for a history.
type scFrame struct {
	kind  string
	list  *[]*model.N // statements of the open body
	close func(body []*model.N) []*model.N
}

// buildScopeProgram turns a history into a program; open constructs are
// closed at the end.  K = 10*step is the fresh value of each step.
func buildScopeProgram(hist []scEvent) []*model.N { return buildScopeProgramX(hist, "x") }

// buildScopeProgramX spells the name x as xName.  When xName is the name of a
// built-in, the program-level binding of x is the built-in itself (no ধরি, which
// the parser refuses for such names) and the only scopes that can bind it are
// function activations through a parameter.
func buildScopeProgramX(hist0 []scEvent, xName string) []*model.N {
	hist := hist0
	if xName != "x" {
		hist = make([]scEvent, len(hist0))
		for i, e := range hist0 {
			if e.Name == "x" {
				e.Name = xName
			}
			hist[i] = e
		}
	}
	top := []*model.N{
		model.Var("x", model.Num(0)),
		model.Fun("rx", nil, model.Print(model.Id(xName))),
		model.Fun("wx", []string{"v"}, model.ExprS(model.Asg(xName, model.Id("v")))),
		model.Fun("dx", []string{"v"}, model.Var("x", model.Id("v")), model.Print(model.Id("x"))),
		model.Fun("rq", nil, model.Print(model.Id("q"))),
		model.Var("dd", model.Num(0)),
	}
	if xName != "x" {
		top = []*model.N{top[1], top[2], top[4], top[5]}
	}
	type fr struct {
		body  []*model.N
		close func(body []*model.N) []*model.N // statements to append to the parent
	}
	stack := []*fr{{body: top}}
	cur := func() *fr { return stack[len(stack)-1] }
	add := func(s ...*model.N) { cur().body = append(cur().body, s...) }
	pop := func() {
		f := cur()
		stack = stack[:len(stack)-1]
		add(f.close(f.body)...)
	}
	var fnStack []string // names of the open functions, innermost last ("" for other constructs)
	selfName := func() string {
		for k := len(fnStack) - 1; k >= 0; k-- {
			if fnStack[k] != "" {
				return fnStack[k]
			}
		}
		return "nofn"
	}
	for i, e := range hist {
		K := model.Num(float64(10 * (i + 1)))
		id := fmt.Sprintf("%d", i+1)
		if e.Name == "@self" {
			e.Name = selfName()
		}
		switch e.Op {
		case "open", "openif", "openwh", "openfor", "openforstep":
			fnStack = append(fnStack, "")
		case "openfun":
			fnStack = append(fnStack, "h"+id)
		case "openfunp":
			fnStack = append(fnStack, "g"+id)
		case "close":
			if len(fnStack) > 0 {
				fnStack = fnStack[:len(fnStack)-1]
			}
		}
		switch e.Op {
		case "callself": // one re-entrant call of the innermost open function (the program-level counter dd stops it)
			fn := selfName()
			call := model.CallN(fn)
			if strings.HasPrefix(fn, "g") {
				call = model.CallN(fn, K)
			}
			add(model.If(model.Bin("<", model.Id("dd"), model.Num(1)), model.Block(model.ExprS(model.Asg("dd", model.Bin("+", model.Id("dd"), model.Num(1)))), model.ExprS(call)), nil))
		case "decl":
			add(model.Var(e.Name, K))
		case "declL": // comma-list declaration
			add(model.VarList([]string{e.Name, "l" + id}, []*model.N{K, model.Num(float64(10*(i+1) + 1))}))
		case "declN": // declaration without initialiser (the name holds nil)
			add(model.Var(e.Name, nil), model.Print(model.Id(e.Name)))
		case "declfrom": // a declaration whose initialiser reads the very name it declares (the binding visible so far)
			add(model.Var(e.Name, model.Bin("+", model.Id(e.Name), model.Num(1))))
		case "asg":
			add(model.ExprS(model.Asg(e.Name, K)))
		case "read":
			add(model.Print(model.Id(e.Name)))
		case "open":
			stack = append(stack, &fr{close: func(b []*model.N) []*model.N { return []*model.N{model.Block(b...)} }})
		case "openif":
			stack = append(stack, &fr{close: func(b []*model.N) []*model.N {
				return []*model.N{model.If(model.Bool(true), model.Block(b...), nil)}
			}})
		case "openwh":
			flag := "w" + id
			stack = append(stack, &fr{close: func(b []*model.N) []*model.N {
				body := append([]*model.N{model.ExprS(model.Asg(flag, model.Bool(false)))}, b...)
				return []*model.N{model.Var(flag, model.Bool(true)), model.While(model.Id(flag), model.Block(body...))}
			}})
		case "openfor":
			flag := "f" + id
			name := e.Name
			stack = append(stack, &fr{close: func(b []*model.N) []*model.N {
				return []*model.N{model.Var(flag, model.Bool(true)),
					model.For(model.Var(name, K), model.Id(flag), model.Asg(flag, model.Bool(false)), model.Block(b...))}
			}})
		case "openforstep": // a for loop whose step clause reads and assigns the name (the body resets the flag)
			flag := "s" + id
			name := e.Name
			stack = append(stack, &fr{close: func(b []*model.N) []*model.N {
				body := append([]*model.N{model.ExprS(model.Asg(flag, model.Bool(false)))}, b...)
				return []*model.N{model.Var(flag, model.Bool(true)),
					model.For(nil, model.Id(flag), model.Asg(name, model.Bin("+", model.Id(name), model.Num(1))), model.Block(body...))}
			}})
		case "openfun":
			fn := "h" + id
			stack = append(stack, &fr{close: func(b []*model.N) []*model.N {
				return []*model.N{model.Fun(fn, nil, b...), model.ExprS(model.CallN(fn))}
			}})
		case "openfunp": // a function whose parameter has the name; called with the step's fresh value
			fn := "g" + id
			name := e.Name
			arg := K
			stack = append(stack, &fr{close: func(b []*model.N) []*model.N {
				return []*model.N{model.Fun(fn, []string{name}, b...), model.ExprS(model.CallN(fn, arg))}
			}})
		case "close":
			pop()
		case "call":
			switch e.Name {
			case "rx", "rq":
				add(model.ExprS(model.CallN(e.Name)))
			default:
				add(model.ExprS(model.CallN(e.Name, K)))
			}
		case "declfn": // a function declaration of the name, in the current scope (whatever the name holds there)
			add(model.Fun(e.Name, nil, model.Print(K), model.Return(K)))
		case "callvar": // the name used as a callee
			add(model.Print(model.CallN(e.Name)))
		case "mkclo":
			add(model.Fun("c"+id, nil, model.Print(model.Id(e.Name)), model.ExprS(model.Asg(e.Name, K))))
		case "callclo":
			add(model.ExprS(model.CallN(e.Name)))
		}
	}
	for len(stack) > 1 {
		pop()
	}
	return stack[0].body
}

func C03(c *fw.Ctx) {
	maxLen, maxDepth := 4, 3
	if !c.Quick() {
		maxLen = 5
	}
	if c.Tier == "deep" {
		maxLen = 6
	}
	c.Bound("history_max_events", maxLen)
	c.Bound("max_open_constructs", maxDepth)
	c.R.Rule = "every well-nested history of scope events (declare/assign/read of the colliding names x y q; open/close of block, if-arm, while body, for with a header declaration, function body; calls of prelude functions that read/assign/declare x or read q; creation and call of closures) up to the length bound, each prefix closed and run as a program; leaves: the first error, and programs the domain restriction excludes; non-trivial = in domain; distinct by program text"
	c03Pool = newProgPool(40)
	scopeWalk(c, "scope", "x", maxLen, maxDepth)
	// every ordered pair of an evenly spread sub-sequence of this shard's scope programs, as `{ P } { Q }`
	composePairs(c, "scopes", c03Pool, judgeOpts{})
	c03Pool = nil
	// the same walk with x spelled as the name of a built-in: its program-level binding is the
	// built-in, the only scopes that can bind it are activations of a function with such a parameter
	bl := maxLen - 1
	for i, b := range model.Builtins {
		l := bl - 1
		if b == model.BiLen || b == model.BiInputLatin || i == len(model.Builtins)-1 {
			l = bl
		}
		scopeWalk(c, "scope-builtin-name", b, l, maxDepth)
	}
	c03Escaping(c)
}

var c03Pool *progPool

func scopeWalk(c *fw.Ctx, sig, xName string, maxLen, maxDepth int) {
	builtinX := xName != "x"
	names := []string{"x", "y", "q"}
	var hist []scEvent
	var opens []string // kinds of the open constructs
	var clos [][]string
	clos = append(clos, nil)
	var rec func()
	rec = func() {
		// run the program for this history
		extend := true
		if c.Mine() {
			prog := buildScopeProgramX(hist, xName)
			if c03Pool != nil && !builtinX {
				c03Pool.offer(prog)
			}
			_, res, skipped := judge(c, prog, judgeOpts{SigPrefix: sig})
			if !skipped {
				c.R.States++
				if len(hist) > 0 {
					c.R.Transitions++
				}
			}
			if res != nil && (res.Err != nil || res.Unspec != "" || res.Diverged) {
				extend = false
			}
			if c.R.States%20000 == 1 && len(hist) >= 3 {
				c.Sample(map[string]interface{}{"history": fmt.Sprint(hist), "program": model.Render(parenAll(buildScopeProgramX(hist, xName)))})
			}
		} else {
			// other shards own this node; we still need to know whether it is a leaf
			prog := parenAll(buildScopeProgramX(hist, xName))
			model.Render(prog)
			res := (&model.Machine{}).Run(prog)
			if res.Err != nil || res.Unspec != "" || res.Diverged {
				extend = false
			}
		}
		if !extend || len(hist) >= maxLen {
			return
		}
		try := func(e scEvent, f func()) {
			hist = append(hist, e)
			if f != nil {
				f()
			} else {
				rec()
			}
			hist = hist[:len(hist)-1]
		}
		for _, n := range []string{"x", "y"} {
			if builtinX && n == "x" {
				continue
			}
			try(scEvent{"declL", n}, nil)
			try(scEvent{"declN", n}, nil)
		}
		for _, n := range names {
			if !(builtinX && n == "x") {
				try(scEvent{"decl", n}, nil)
				if n != "q" {
					try(scEvent{"declfrom", n}, nil)
				}
			}
			try(scEvent{"asg", n}, nil)
			try(scEvent{"read", n}, nil)
		}
		for _, f := range []string{"rx", "wx", "dx", "rq"} {
			if builtinX && f == "dx" {
				continue
			}
			try(scEvent{"call", f}, nil)
		}
		if !builtinX {
			for _, n := range []string{"x", "y"} {
				try(scEvent{"declfn", n}, nil)
				try(scEvent{"callvar", n}, nil)
			}
		}
		inFn := false
		for _, k := range opens {
			if k == "openfun" || k == "openfunp" {
				inFn = true
			}
		}
		if inFn && !builtinX {
			// the enclosing function's own name used as a variable, and one re-entrant call
			try(scEvent{"read", "@self"}, nil)
			try(scEvent{"asg", "@self"}, nil)
			try(scEvent{"decl", "@self"}, nil)
			try(scEvent{"callself", ""}, nil)
		}
		for _, n := range []string{"x", "y"} {
			cl := fmt.Sprintf("c%d", len(hist)+1)
			try(scEvent{"mkclo", n}, func() {
				clos[len(clos)-1] = append(clos[len(clos)-1], cl)
				rec()
				clos[len(clos)-1] = clos[len(clos)-1][:len(clos[len(clos)-1])-1]
			})
		}
		for _, lvl := range clos {
			for _, cl := range lvl {
				try(scEvent{"callclo", cl}, nil)
			}
		}
		if len(opens) < maxDepth {
			kinds := []scEvent{{"open", ""}, {"openif", ""}, {"openwh", ""}, {"openfor", "x"}, {"openfor", "y"}, {"openfun", ""}, {"openfunp", "x"}, {"openfunp", "q"}, {"openforstep", "x"}}
			for _, k := range kinds {
				if builtinX && k.Op == "openfor" && k.Name == "x" {
					continue
				}
				try(k, func() {
					opens = append(opens, k.Op)
					clos = append(clos, nil)
					rec()
					clos = clos[:len(clos)-1]
					opens = opens[:len(opens)-1]
				})
			}
		}
		if len(opens) > 0 {
			try(scEvent{"close", ""}, func() {
				k := opens[len(opens)-1]
				saved := clos[len(clos)-1]
				opens = opens[:len(opens)-1]
				clos = clos[:len(clos)-1]
				rec()
				clos = append(clos, saved)
				opens = append(opens, k)
			})
		}
	}
	rec()
}

func c03Escaping(c *fw.Ctx) {
	// escaping closures: a function F with a parameter and a body-level local; a closure declared at
	// one of five sites of F's body reads / assigns one of them, escapes through a program-level
	// variable and is used after F has returned: directly, after other calls have come and gone, and
	// from inside a function whose own parameter / local has the same name (caller locals stay invisible)
	sites := []string{"top", "block", "if", "for", "while", "nested-block"}
	for _, site := range sites {
		for _, target := range []string{"p", "loc"} {
			for _, act := range []string{"read", "assign"} {
				for use := 0; use < 4; use++ {
					if !c.Mine() {
						continue
					}
					var cbody []*model.N
					if act == "assign" {
						cbody = append(cbody, model.ExprS(model.Asg(target, model.Bin("+", model.Id(target), model.Num(1)))))
					}
					cbody = append(cbody, model.Return(model.Id(target)))
					decl := []*model.N{model.Fun("inner", nil, cbody...), model.ExprS(model.Asg("g", model.Id("inner")))}
					var nest []*model.N
					switch site {
					case "top":
						nest = decl
					case "block":
						nest = []*model.N{model.Block(decl...)}
					case "nested-block":
						nest = []*model.N{model.Block(model.Var("mid", model.Num(5)), model.Block(decl...))}
					case "if":
						nest = []*model.N{model.If(model.Bin(">", model.Id("p"), model.Num(0)), model.Block(decl...), nil)}
					case "for":
						nest = []*model.N{model.For(model.Var("k", model.Num(0)), model.Bin("<", model.Id("k"), model.Num(1)), model.Asg("k", model.Num(1)), model.Block(decl...))}
					case "while":
						nest = []*model.N{model.While(model.Bin("==", model.Id("g"), model.Nil()), model.Block(decl...))}
					}
					fbody := append([]*model.N{model.Var("loc", model.Bin("*", model.Id("p"), model.Num(10)))}, nest...)
					fbody = append(fbody, model.Return(model.Id("loc")))
					prog := []*model.N{
						model.Var("g", model.Nil()),
						model.Fun("F", []string{"p"}, fbody...),
						model.Fun("other", []string{"p"}, model.Var("loc", model.Num(777)), model.Var("z", model.Bin("+", model.Id("p"), model.Id("loc"))), model.Return(model.Id("z"))),
						model.Fun("viaCaller", []string{"p"}, model.Var("loc", model.Num(555)), model.Return(model.CallN("g"))),
						model.Print(model.CallN("F", model.Num(3))),
					}
					switch use {
					case 0:
						prog = append(prog, model.Print(model.CallN("g")), model.Print(model.CallN("g")))
					case 1:
						prog = append(prog, model.Print(model.CallN("other", model.Num(42))), model.Print(model.CallN("g")), model.Print(model.CallN("other", model.Num(43))), model.Print(model.CallN("g")))
					case 2:
						prog = append(prog, model.Print(model.CallN("viaCaller", model.Num(99))), model.Print(model.CallN("g")))
					case 3:
						prog = append(prog, model.Var("g1", model.Id("g")), model.ExprS(model.Asg("g", model.Nil())), model.Print(model.CallN("F", model.Num(8))),
							model.Print(model.CallN("g1")), model.Print(model.CallN("g")), model.Print(model.CallN("viaCaller", model.Num(1))), model.Print(model.CallN("g1")))
					}
					// ... at every nesting depth 0..12: the whole program inside that many blocks
					for depth := 0; depth <= 12; depth++ {
						_, _, skipped := judge(c, nestIn(prog, depth), judgeOpts{SigPrefix: "escaping-closure|" + site, NoTwice: depth > 0, NoPrompt: depth > 0})
						if !skipped {
							c.R.States++
							c.R.Transitions++
						}
					}
				}
			}
		}
	}
	// a closure that escapes from a block (reading / assigning the block's local), then sibling scopes
	// of every kind come and go at the same level, then the closure is used: it still sees its own
	// block's variable; at every nesting depth 0..12
	siblings := map[string]func() []*model.N{
		"none":          func() []*model.N { return nil },
		"block-nested":  func() []*model.N { return []*model.N{model.Block(model.Var("a", model.Num(50)), model.Block(model.Print(model.Id("a"))))} },
		"block-fun":     func() []*model.N { return []*model.N{model.Block(model.Fun("h", nil, model.Return(model.Num(0))), model.Print(model.CallN("h")))} },
		"block-fun-var": func() []*model.N { return []*model.N{model.Block(model.Var("a", model.Num(60)), model.Fun("h", nil, model.Return(model.Id("a"))), model.Print(model.CallN("h")))} },
		"if-nested":     func() []*model.N { return []*model.N{model.If(model.Bool(true), model.Block(model.Block(T("in-if"))), nil)} },
		"for":           func() []*model.N { return []*model.N{model.For(model.Var("k", model.Num(0)), model.Bin("<", model.Id("k"), model.Num(2)), model.Asg("k", model.Bin("+", model.Id("k"), model.Num(1))), model.Block(model.Print(model.Id("k"))))} },
		"while-nested":  func() []*model.N { return []*model.N{model.Var("w", model.Num(0)), model.While(model.Bin("<", model.Id("w"), model.Num(2)), model.Block(model.Block(model.ExprS(model.Asg("w", model.Bin("+", model.Id("w"), model.Num(1)))))))} },
		"call":          func() []*model.N { return []*model.N{model.Fun("k2", []string{"a"}, model.Block(model.Return(model.Bin("*", model.Id("a"), model.Num(2))))), model.Print(model.CallN("k2", model.Num(4)))} },
	}
	sibNames := []string{"none", "block-nested", "block-fun", "block-fun-var", "if-nested", "for", "while-nested", "call"}
	for _, s1 := range sibNames {
		for _, s2 := range sibNames {
			for _, act := range []string{"read", "assign"} {
				for _, outerA := range []bool{false, true} {
					if !c.Mine() {
						continue
					}
					var cbody []*model.N
					if act == "assign" {
						cbody = append(cbody, model.ExprS(model.Asg("a", model.Bin("+", model.Id("a"), model.Num(1)))))
					}
					cbody = append(cbody, model.Return(model.Id("a")))
					var prog []*model.N
					prog = append(prog, model.Var("g", model.Nil()))
					if outerA {
						prog = append(prog, model.Var("a", model.Num(-1)))
					}
					prog = append(prog, model.Block(model.Var("a", model.Num(1)), model.Fun("inner", nil, cbody...), model.ExprS(model.Asg("g", model.Id("inner")))))
					prog = append(prog, siblings[s1]()...)
					prog = append(prog, model.Print(model.CallN("g")))
					prog = append(prog, siblings[s2]()...)
					prog = append(prog, model.Print(model.CallN("g")))
					if outerA {
						prog = append(prog, model.Print(model.Id("a")))
					}
					for depth := 0; depth <= 12; depth++ {
						_, _, skipped := judge(c, nestIn(prog, depth), judgeOpts{SigPrefix: "escaping-closure|siblings-afterwards", NoTwice: depth > 0, NoPrompt: depth > 0})
						if !skipped {
							c.R.States++
							c.R.Transitions++
						}
					}
				}
			}
		}
	}
	c.R.Traces = c.R.States
	_ = strings.Join
}

// nestIn puts a whole program inside depth blocks.
func nestIn(prog []*model.N, depth int) []*model.N {
	for d := 0; d < depth; d++ {
		prog = []*model.N{model.Block(prog...)}
	}
	return prog
}

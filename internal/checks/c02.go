package checks

import (
	"fmt"
	"math"
	"math/big"
	"strings"

	"verif/internal/fw"
	"verif/internal/h"
	"verif/internal/model"
)

func init() { Registry["C02"] = C02 }

type operand struct {
	Name string
	Mk   func() *model.N
}

func bigLit(f float64) string {
	r := new(big.Rat).SetFloat64(f)
	return exactDecimal(r)
}

func numOp(name string, f float64) operand {
	return operand{name, func() *model.N {
		if f < 0 || (f == 0 && math.Signbit(f)) {
			return model.Grp(model.Un("-", model.NumT(bigLit(-f))))
		}
		return model.NumT(bigLit(f))
	}}
}

// c02Prelude declares the shared values used by operand expressions.
func c02Prelude() []*model.N {
	return []*model.N{
		model.Fun("uf", nil),
		model.Var("AA", model.Arr(model.Num(1))),
		model.Var("OO", model.Obj([]string{"k"}, []*model.N{model.Num(1)})),
	}
}

func c02Operands() []operand {
	inf := func() *model.N { return model.Grp(model.Bin("**", model.Num(10), model.Num(400))) }
	ops := []operand{
		{"nil", model.Nil},
		{"true", func() *model.N { return model.Bool(true) }},
		{"false", func() *model.N { return model.Bool(false) }},
		numOp("0", 0), numOp("-0", math.Copysign(0, -1)), numOp("1", 1), numOp("-1", -1), numOp("0.5", 0.5), numOp("-0.5", -0.5),
		numOp("2", 2), numOp("3", 3), numOp("-3", -3), numOp("63", 63), numOp("64", 64), numOp("65", 65),
		numOp("2^31", 1<<31), numOp("2^32", 1<<32), numOp("2^53", 1<<53), numOp("2^53+2", 1<<53+2),
		numOp("2^63-1024", 9223372036854774784), numOp("2^63", 9223372036854775808), numOp("-2^63", -9223372036854775808),
		numOp("2^64", 18446744073709551616), numOp("1e308", 1e308), numOp("maxdouble", math.MaxFloat64),
		numOp("minsub", math.SmallestNonzeroFloat64), numOp("1e-5", 1e-5), numOp("123456.789", 123456.789), numOp("1e6", 1e6), numOp("1e21", 1e21),
		{"+Inf", inf},
		{"-Inf", func() *model.N { return model.Grp(model.Un("-", inf())) }},
		{"NaN", func() *model.N { return model.Grp(model.Bin("-", inf(), inf())) }},
		{"7&3", func() *model.N { return model.Grp(model.Bin("&", model.Num(7), model.Num(3))) }},
		{"1<<62", func() *model.N { return model.Grp(model.Bin("<<", model.Num(1), model.Num(62))) }},
		{`""`, func() *model.N { return model.Str("") }},
		{`"a"`, func() *model.N { return model.Str("a") }},
		{`"ab"`, func() *model.N { return model.Str("ab") }},
		{`"a b"`, func() *model.N { return model.Str("a b") }},
		{`"a"+"b"`, func() *model.N { return model.Grp(model.Bin("+", model.Str("a"), model.Str("b"))) }},
		{"devanagari-digits", func() *model.N { return model.Str("\u0967\u0968") }},
		{"arabic-indic-digit", func() *model.N { return model.Str("\u0663") }},
		{"fullwidth-digit-letter", func() *model.N { return model.Str("\uff15x") }},
		{"mixed-digits-letter", func() *model.N { return model.Str("1\u09e8a") }},
		{"[]", func() *model.N { return model.Arr() }},
		{"[1]", func() *model.N { return model.Arr(model.Num(1)) }},
		{"AA", func() *model.N { return model.Id("AA") }},
		{"{}", func() *model.N { return model.Obj(nil, nil) }},
		{"{k:1}", func() *model.N { return model.Obj([]string{"k"}, []*model.N{model.Num(1)}) }},
		{"OO", func() *model.N { return model.Id("OO") }},
		{"uf", func() *model.N { return model.Id("uf") }},
		{"builtin", func() *model.N { return model.Id(model.BiLen) }},
	}
	return ops
}

func C02(c *fw.Ctx) {
	c.R.Rule = "every unary and binary operator applied to every ordered pair of the operand alphabet (all value kinds, boundary magnitudes, integer-typed results); equality laws on every pair of bound values; every depth-2 composition over a sub-alphabet; non-trivial = model-defined outcome (value or error), distinct by program text"
	ops := c02Operands()
	c.Bound("operand_alphabet", len(ops))
	c.Bound("binary_operators", len(model.BinOps))
	pre := c02Prelude()
	mkProg := func(e *model.N) []*model.N {
		p := append([]*model.N{}, c02Prelude()...)
		return append(p, model.Print(e))
	}
	_ = pre
	// unary
	for _, op := range []string{"-", "!", "~"} {
		for _, x := range ops {
			if !c.Mine() {
				continue
			}
			judge(c, mkProg(model.Un(op, x.Mk())), judgeOpts{SigPrefix: "un" + op + "|" + kindLabel(x.Name), NoKind: true})
		}
	}
	// stacked prefix operators: every sequence of two and of three, applied innermost first
	for _, o1 := range []string{"-", "!", "~"} {
		for _, o2 := range []string{"-", "!", "~"} {
			for _, x := range ops {
				if !c.Mine() {
					continue
				}
				judge(c, mkProg(model.Un(o1, model.Un(o2, x.Mk()))), judgeOpts{SigPrefix: "un" + o1 + o2 + "|" + kindLabel(x.Name), NoKind: true})
				for _, o3 := range []string{"-", "!", "~"} {
					judge(c, mkProg(model.Un(o1, model.Un(o2, model.Un(o3, x.Mk())))), judgeOpts{SigPrefix: "un" + o1 + o2 + o3 + "|" + kindLabel(x.Name), NoKind: true, NoOneLine: true})
				}
			}
		}
	}
	// binary matrix
	for _, op := range model.BinOps {
		for _, x := range ops {
			for _, y := range ops {
				if !c.Mine() {
					continue
				}
				judge(c, mkProg(model.Bin(op, x.Mk(), y.Mk())), judgeOpts{SigPrefix: "op" + op + "|" + kindLabel(x.Name) + "|" + kindLabel(y.Name), NoKind: true})
			}
		}
	}
	// the same matrix with one or both operands held in variables (a literal beside a variable, a variable
	// beside a literal, two variables)
	for _, op := range model.BinOps {
		for _, x := range ops {
			for _, y := range ops {
				if !c.Mine() {
					continue
				}
				for form := 0; form < 3; form++ {
					prog := append(c02Prelude(), model.Var("VX", x.Mk()), model.Var("VY", y.Mk()))
					var e *model.N
					switch form {
					case 0:
						e = model.Bin(op, x.Mk(), model.Id("VY"))
					case 1:
						e = model.Bin(op, model.Id("VX"), y.Mk())
					case 2:
						e = model.Bin(op, model.Id("VX"), model.Id("VY"))
					}
					judge(c, append(prog, model.Print(e)), judgeOpts{SigPrefix: fmt.Sprintf("op%s|variable-operands%d|%s|%s", op, form, kindLabel(x.Name), kindLabel(y.Name)), NoKind: true, NoOneLine: true, NoPrompt: true, NoTwice: true})
				}
			}
		}
	}
	// rows and columns: every non-failing result of one operator with one fixed operand, all in a
	// single run, in both orders of the other operand -- a result computed earlier in a run must not
	// change a later one; likewise every operator on one pair in a single run
	okExpr := func(e *model.N) bool {
		r := (&model.Machine{}).Run(parenAll(mkProg(e)))
		return r.Err == nil && r.Unspec == "" && !r.Diverged
	}
	for _, op := range model.BinOps {
		for xi, x := range ops {
			for side := 0; side < 2; side++ {
				for order := 0; order < 2; order++ {
					if !c.Mine() {
						continue
					}
					prog := append([]*model.N{}, c02Prelude()...)
					n := 0
					for k := range ops {
						y := ops[k]
						if order == 1 {
							y = ops[len(ops)-1-k]
						}
						mk := func() *model.N {
							if side == 0 {
								return model.Bin(op, x.Mk(), y.Mk())
							}
							return model.Bin(op, y.Mk(), x.Mk())
						}
						if okExpr(mk()) {
							prog = append(prog, model.Print(mk()))
							n++
						}
					}
					if n >= 2 {
						judge(c, prog, judgeOpts{SigPrefix: fmt.Sprintf("row|%s|side%d", op, side), NoKind: true, NoOneLine: xi%4 != 0})
					}
				}
			}
		}
	}
	for _, x := range ops {
		for _, y := range ops {
			if !c.Mine() {
				continue
			}
			for order := 0; order < 2; order++ {
				prog := append([]*model.N{}, c02Prelude()...)
				n := 0
				for k := range model.BinOps {
					op := model.BinOps[k]
					if order == 1 {
						op = model.BinOps[len(model.BinOps)-1-k]
					}
					if okExpr(model.Bin(op, x.Mk(), y.Mk())) {
						prog = append(prog, model.Print(model.Bin(op, x.Mk(), y.Mk())))
						n++
					}
				}
				if n >= 2 {
					judge(c, prog, judgeOpts{SigPrefix: "all-operators|" + kindLabel(x.Name) + "|" + kindLabel(y.Name), NoKind: true, NoOneLine: true})
				}
			}
		}
	}
	// equality laws on bound values (identity preserved through variables)
	// ... over the operand alphabet extended by every built-in and by user functions of several shapes
	// (with parameters, two instances of one nested declaration, a function held in a container)
	eqOps := append([]operand{}, ops...)
	for _, b := range model.Builtins {
		b := b
		eqOps = append(eqOps, operand{"builtin:" + b, func() *model.N { return model.Id(b) }})
	}
	eqOps = append(eqOps,
		operand{"fn:uf2", func() *model.N { return model.Id("uf2") }},
		operand{"fn:C1", func() *model.N { return model.Id("C1") }},
		operand{"fn:C2", func() *model.N { return model.Id("C2") }},
		operand{"fn:held", func() *model.N { return model.Idx(model.Id("FH"), model.Num(0)) }})
	c.Bound("equality_alphabet", len(eqOps))
	for _, x := range eqOps {
		for _, y := range eqOps {
			if !c.Mine() {
				continue
			}
			equalityLaws(c, x, y)
		}
	}
	// numeric-looking strings as operands: whether they are coerced is not specified, but if the
	// operation does not fail it must behave exactly as with the number the string spells
	// (in particular a zero divisor stays an error)
	numStrs := []struct {
		s string
		v float64
	}{{"0", 0}, {"০", 0}, {"12", 12}, {"১২", 12}, {"-3", -3}, {"0.5", 0.5}, {"০.০", 0}, {"-0", math.Copysign(0, -1)}, {"64", 64}, {"1e3", 1000}, {"007", 7}}
	partners := []float64{0, 1, 7, -2, 0.5, 64}
	for _, op := range []string{"-", "*", "/", "%", "**", "<", "<=", ">", ">=", "&", "|", "^", "<<", ">>"} {
		for _, ns := range numStrs {
			for _, pv := range partners {
				for side := 0; side < 2; side++ {
					if !c.Mine() {
						continue
					}
					lit := func(f float64) *model.N {
						if f < 0 || math.Signbit(f) {
							return model.Grp(model.Un("-", model.Num(-f)))
						}
						return model.Num(f)
					}
					var es, en *model.N
					if side == 0 {
						es, en = model.Bin(op, lit(pv), model.Str(ns.s)), model.Bin(op, lit(pv), lit(ns.v))
					} else {
						es, en = model.Bin(op, model.Str(ns.s), lit(pv)), model.Bin(op, lit(ns.v), lit(pv))
					}
					ps := model.Render(parenAll([]*model.N{model.Print(es), T("after")}))
					pn := model.Render(parenAll([]*model.N{model.Print(en), T("after")}))
					os, on := h.RunFile(ps, h.Opts{}), h.RunFile(pn, h.Opts{})
					c.Eval(ps, true)
					base := fw.Replay{Mode: "file", Program: ps, Related: []string{pn}, CLI: true, InStdout: os.Stdout, InStderr: os.Stderr, InStatus: os.Status}
					if abnormal(c, os, "file", ps, base) || abnormal(c, on, "file", pn, base) {
						continue
					}
					failed := os.Status == 70 && os.Stderr != "" && os.Stdout == ""
					same := os.Stdout == on.Stdout && os.Status == on.Status && (os.Stderr == "") == (on.Stderr == "")
					if !failed && !same {
						r := base
						r.Sig = "C02|numeric-string-operand|" + op
						r.What = "an operator applied to a numeric-looking string must either fail or behave as with the number it spells"
						r.Expected = fmt.Sprintf("a runtime error, or as the number: stdout %q status %d", on.Stdout, on.Status)
						r.Observed = fmt.Sprintf("stdout %q status %d stderr %q", os.Stdout, os.Status, trunc(os.Stderr, 100))
						c.Violate(r)
					}
				}
			}
		}
	}
	// depth-2 compositions
	sub := []operand{}
	for _, n := range []string{"1", "3", "0.5", "-1", `"a"`, "7&3", "64", "0"} {
		for _, o := range ops {
			if o.Name == n {
				sub = append(sub, o)
			}
		}
	}
	if c.Quick() {
		sub = sub[:6]
	}
	c.Bound("depth2_sub_alphabet", len(sub))
	for _, op1 := range model.BinOps {
		for _, op2 := range model.BinOps {
			for _, x := range sub {
				for _, y := range sub {
					for _, z := range sub {
						if !c.Mine() {
							continue
						}
						e := model.Bin(op2, model.Grp(model.Bin(op1, x.Mk(), y.Mk())), z.Mk())
						judge(c, mkProg(e), judgeOpts{SigPrefix: "d2|" + op1 + "|" + op2, NoKind: true})
						if !c.Quick() {
							e2 := model.Bin(op2, z.Mk(), model.Grp(model.Bin(op1, x.Mk(), y.Mk())))
							judge(c, mkProg(e2), judgeOpts{SigPrefix: "d2r|" + op1 + "|" + op2, NoKind: true})
						}
					}
				}
			}
		}
	}
	c.Sample(map[string]string{"program": model.Render(mkProg(model.Bin("<<", ops[5].Mk(), ops[6].Mk())))})
	c.Sample(map[string]string{"program": model.Render(mkProg(model.Bin("+", model.Str("a"), ops[22].Mk())))})
}

// kindLabel abstracts an operand name to its kind for signatures.
func kindLabel(name string) string {
	switch {
	case strings.HasPrefix(name, "builtin:") || strings.HasPrefix(name, "fn:"):
		return "function"
	case name == "nil" || name == "true" || name == "false":
		return name
	case strings.HasPrefix(name, `"`), strings.Contains(name, "digit"):
		return "string"
	case name == "[]" || name == "[1]" || name == "AA":
		return "array"
	case name == "{}" || name == "{k:1}" || name == "OO":
		return "object"
	case name == "uf":
		return "function"
	case name == "builtin":
		return "builtin"
	case name == "7&3" || name == "1<<62":
		return "bitwise-result"
	case name == "+Inf" || name == "-Inf" || name == "NaN":
		return name
	}
	return "number"
}

// equalityLaws: == and != never fail, are symmetric, != is the negation,
// x == x holds for every non-NaN x; across kinds the answer is false; same
// kind scalars compare by value.
func equalityLaws(c *fw.Ctx, x, y operand) {
	prog := append(c02Prelude(),
		model.Fun("uf2", []string{"a", "b"}, model.Return(model.Id("a"))),
		model.Fun("mk", nil, model.Fun("in", nil), model.Return(model.Id("in"))),
		model.Var("C1", model.CallN("mk")), model.Var("C2", model.CallN("mk")),
		model.Var("FH", model.Arr(model.Id("uf2"))),
		model.Var("X", x.Mk()), model.Var("Y", y.Mk()),
		model.Print(model.Bin("==", model.Id("X"), model.Id("Y"))),
		model.Print(model.Bin("==", model.Id("Y"), model.Id("X"))),
		model.Print(model.Bin("!=", model.Id("X"), model.Id("Y"))),
		model.Print(model.Bin("==", model.Id("X"), model.Id("X"))),
		model.Print(model.Bin("!=", model.Id("X"), model.Id("X"))),
	)
	src := model.Render(prog)
	o := h.RunFile(src, h.Opts{})
	c.Eval(src, true)
	base := fw.Replay{Mode: "file", Program: src, CLI: true, InStdout: o.Stdout, InStderr: o.Stderr, InStatus: o.Status}
	if abnormal(c, o, "file", src, base) {
		return
	}
	sigd := kindLabel(x.Name) + "|" + kindLabel(y.Name)
	fail := func(clause, exp, obs string) {
		r := base
		r.Sig = "C02|equality-" + clause + "|" + sigd
		r.What = "equality law: " + clause
		r.Expected, r.Observed = exp, obs
		c.Violate(r)
	}
	if o.Stderr != "" || o.Status != 0 {
		fail("total", "no error", fmt.Sprintf("status %d, %q", o.Status, trunc(o.Stderr, 120)))
		return
	}
	l := strings.Split(strings.TrimSuffix(o.Stdout, "\n"), "\n")
	if len(l) != 5 {
		fail("total", "five booleans", o.Stdout)
		return
	}
	for _, v := range l {
		if v != "true" && v != "false" {
			fail("boolean", "true/false", o.Stdout)
			return
		}
	}
	if l[0] != l[1] {
		fail("symmetric", "X==Y same as Y==X", o.Stdout)
	}
	if l[2] == l[0] {
		fail("negation", "X!=Y is the negation of X==Y", o.Stdout)
	}
	isNaN := x.Name == "NaN"
	if !isNaN && (l[3] != "true" || l[4] != "false") {
		fail("reflexive", "X==X true, X!=X false", o.Stdout)
	}
	if isNaN && (l[3] != "false" || l[4] != "true") {
		fail("nan", "NaN==NaN false", o.Stdout)
	}
	// value semantics from the model where it is specified
	m := &model.Machine{}
	res := m.Run(prog)
	if res.Unspec == "" && res.Err == nil && !res.Diverged {
		if why := model.CompareStdout(res, o.Stdout); why != "" {
			fail("value", res.Stdout(), o.Stdout)
		}
	}
}

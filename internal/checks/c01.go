package checks

import (
	"fmt"

	"verif/internal/fw"
	"verif/internal/h"
	"verif/internal/model"
)

func init() { Registry["C01"] = C01 }

// parseBoth parses src with the real front end and converts the result.
func realTree(c *fw.Ctx, src string) ([]*model.N, bool) {
	_, stmts, o := h.Parse(src, h.Opts{Fuel: int64(200000 + 2000*len(src))})
	if abnormal(c, o, "parse", src, fw.Replay{}) {
		return nil, false
	}
	if o.HadError || o.Stderr != "" {
		c.Violate(fw.Replay{Sig: "C01|rejected", What: "a text of the documented language is rejected", Mode: "parse", Program: src,
			Expected: "accepted", Observed: trunc(o.Stderr, 200)})
		return nil, false
	}
	out := make([]*model.N, len(stmts))
	for i, s := range stmts {
		out[i] = fromAst(s)
	}
	return out, true
}

func sameProgram(a, b []*model.N) (bool, int) {
	if len(a) != len(b) {
		return false, -1
	}
	for i := range a {
		if !model.SameTree(a[i], b[i]) {
			return false, i
		}
	}
	return true, 0
}

func showProg(p []*model.N) string {
	s := ""
	for _, n := range p {
		s += model.Show(n) + " "
	}
	return s
}

// treeCase: the real parser must return exactly `want` for src.
func treeCase(c *fw.Ctx, src string, want []*model.N, stripGroups bool, sig string) {
	c.Eval(src, true)
	got, ok := realTree(c, src)
	if !ok {
		return
	}
	w := want
	if stripGroups {
		w = make([]*model.N, len(want))
		for i := range want {
			w[i] = model.StripGroups(want[i])
		}
		for i := range got {
			got[i] = model.StripGroups(got[i])
		}
	}
	if same, _ := sameProgram(got, w); !same {
		c.Violate(fw.Replay{Sig: "C01|tree|" + sig, What: "the parser's tree is not the one the ladder prescribes", Mode: "parse", Program: src,
			Expected: showProg(w), Observed: showProg(got)})
	}
}

// exprForms applies every expression node form to children drawn from kids.
func exprForms(kids []*model.N, reduced bool, emit func(*model.N)) {
	bins := append([]string{}, model.BinOps...)
	logs := []string{"||", "&&", model.KwOr, model.KwAnd}
	uns := []string{"-", "!", "~"}
	if reduced {
		bins = []string{"+", "*", "==", "**", "|", "<<"}
		logs = []string{model.KwOr}
		uns = []string{"-"}
	}
	cl := func(n *model.N) *model.N { return n.Clone() }
	for _, a := range kids {
		for _, u := range uns {
			emit(model.Un(u, cl(a)))
		}
		emit(model.Grp(cl(a)))
		emit(model.Asg("v", cl(a)))
		emit(model.Call(cl(a)))
		emit(model.Prop(cl(a), "k"))
		emit(model.Arr(cl(a)))
		emit(model.Obj([]string{"k"}, []*model.N{cl(a)}))
		for _, b := range kids {
			for _, op := range bins {
				emit(model.Bin(op, cl(a), cl(b)))
			}
			for _, op := range logs {
				emit(model.Log(op, cl(a), cl(b)))
			}
			emit(model.Call(cl(a), cl(b)))
			emit(model.Idx(cl(a), cl(b)))
			emit(model.PAsg(cl(a), "k", cl(b)))
			emit(model.Arr(cl(a), cl(b)))
			if !reduced {
				emit(model.Obj([]string{"k", "m"}, []*model.N{cl(a), cl(b)}))
			}
		}
	}
	emit(model.Arr())
	emit(model.Obj(nil, nil))
}

func C01(c *fw.Ctx) {
	if err := loadGrammars(); err != nil {
		c.HarnessError("grammar: " + err.Error())
		return
	}
	fullLen, redLen, exprLen := 4, 5, 8
	if !c.Quick() {
		fullLen, redLen, exprLen = 5, 7, 9
	}
	if c.Tier == "deep" {
		fullLen, redLen, exprLen = 6, 8, 10
	}
	c.Bound("full_alphabet_max_tokens", fullLen)
	c.Bound("reduced_alphabet_max_tokens", redLen)
	c.Bound("expression_alphabet_max_tokens", exprLen)
	c.R.Rule = "(a) every token sequence the amended grammar accepts, up to the length bounds over three alphabets: the real parser's tree (walked through exported fields) equals the ladder parser's; (b) every expression tree of depth <=2 over every node form (depth 3 over a reduced form set) and every statement skeleton, written with minimal and with full parentheses: the real parser returns the same tree; (c) operator triples with numeric leaves print the same with and without ladder-conform parentheses; distinct by text"
	// (a) accepted token sequences
	visit := func(tc tokCase) {
		if !tc.Accepted || len(tc.Syms) == 0 {
			return
		}
		src, _, _ := renderToks(tc.Syms, false)
		want, err := model.ParseSource(src)
		if err != nil {
			c.HarnessError("ladder parser failed on a text the grammar accepts: " + src + ": " + err.Error())
			return
		}
		treeCase(c, src, want, false, "tokens")
		c.Count("accepted_sequences")
	}
	walkTokens(c, fullAlphabet(), fullLen, visit)
	walkTokens(c, reducedAlphabet(), redLen, func(tc tokCase) {
		if len(tc.Syms) > fullLen {
			visit(tc)
		}
	})
	// the expression alphabet also visits what the grammar does NOT derive (a dead token, then an
	// identifier / number and a ';'): if the real parser accepts such a text it has given a tree to a
	// program for which the ladder prescribes none
	walkTokensExt(c, exprAlphabet(), exprLen, []tokSym{{"IDENT", "a"}, {"NUMBER", "1"}}, func(tc tokCase) {
		if tc.Accepted {
			if len(tc.Syms) > redLen {
				visit(tc)
			}
			return
		}
		if tc.Dead >= len(tc.Syms)-1 || tc.Syms[len(tc.Syms)-1].Kind != "SEMICOLON" || tc.Dead > exprLen-3 || tc.Syms[tc.Dead+1].Kind != "IDENT" {
			return
		}
		src, _, _ := renderToks(tc.Syms, false)
		_, _, o := h.Parse(src, h.Opts{Fuel: int64(200000 + 2000*len(src))})
		c.Eval(src, true)
		if o.Panic == "" && !o.Diverged && !o.HadError && o.Stderr == "" {
			c.Violate(fw.Replay{Sig: "C01|accepted-without-a-ladder-tree|dead-" + tc.Syms[tc.Dead].Kind, What: "the parser accepts a text the documented grammar does not derive: no tree of the ladder corresponds to it",
				Mode: "parse", Program: src, Expected: "rejected (the grammar stops at token " + tc.Syms[tc.Dead].Text + ")", Observed: "accepted without a diagnostic"})
		}
	})
	stmtLen := 8
	if !c.Quick() {
		stmtLen = 10
	}
	c.Bound("statement_alphabet_max_tokens", stmtLen)
	walkTokens(c, stmtAlphabet(), stmtLen, func(tc tokCase) {
		if len(tc.Syms) > fullLen {
			visit(tc)
		}
	})
	// (b) trees written out with parentheses
	leaves := []*model.N{model.Id("a")}
	var s1 []*model.N
	exprForms(leaves, false, func(n *model.N) { s1 = append(s1, n) })
	exprCase := func(tr *model.N, sig string) {
		if !c.Mine() {
			return
		}
		stmt := model.ExprS(tr)
		minimal := model.Parenthesize(stmt, true)
		full := model.Parenthesize(stmt, false)
		srcMin := model.Render([]*model.N{minimal})
		srcFull := model.Render([]*model.N{full})
		// the model's own parser must read the minimal text as the tree (self-check)
		if back, err := model.ParseSource(srcMin); err != nil || len(back) != 1 || !model.SameTree(back[0], minimal) {
			c.HarnessError("model self-check failed for " + srcMin)
			return
		}
		treeCase(c, srcMin, []*model.N{minimal}, false, "minimal|"+sig)
		treeCase(c, srcFull, []*model.N{stmt}, true, "full|"+sig)
		c.R.States++
		c.R.Transitions++
	}
	d1 := append(append([]*model.N{}, leaves...), s1...)
	n2 := 0
	exprForms(d1, false, func(n *model.N) {
		n2++
		exprCase(n, "depth2|"+n.K+n.Op)
	})
	c.Bound("depth2_trees", n2)
	// depth 3 over a reduced form set
	var r1, r2 []*model.N
	exprForms(leaves, true, func(n *model.N) { r1 = append(r1, n) })
	rd1 := append(append([]*model.N{}, leaves...), r1...)
	exprForms(rd1, true, func(n *model.N) { r2 = append(r2, n) })
	{
		// depth-3 roots are the binary / unary / suffix forms over depth-2 children of the reduced set: an
		// evenly spread 120 (quick) / 700 (thorough) of them -- all pairs of all of them would be 4 * 10^8 trees
		want := 120
		if !c.Quick() {
			want = 700
		}
		if c.Tier == "deep" {
			want = 2000
		}
		if len(r2) > want {
			var pick []*model.N
			for i := 0; i < want; i++ {
				pick = append(pick, r2[i*len(r2)/want])
			}
			r2 = pick
		}
		c.Bound("depth3_children", len(r2))
	}
	n3 := 0
	exprForms(r2, true, func(n *model.N) {
		n3++
		exprCase(n, "depth3|"+n.K+n.Op)
	})
	c.Bound("depth3_trees", n3)
	// all ordered triples of ladder levels in all five shapes
	reps := []string{model.KwOr, model.KwAnd, "|", "^", "&", "==", "<", "<<", "+", "*", "**"}
	mk := func(op string, l, r *model.N) *model.N {
		if model.BinLevel[op] == 0 {
			return model.Log(op, l, r)
		}
		return model.Bin(op, l, r)
	}
	// leaves: numbers; and, for the printing clause only, three further sets mixing numbers with texts that
	// spell numbers, other texts, booleans and nil (what an operator makes of them must not depend on
	// whether the tree is written with its parentheses)
	leafSets := [][4]func() *model.N{
		{func() *model.N { return model.Num(7) }, func() *model.N { return model.Num(3) }, func() *model.N { return model.Num(2) }, func() *model.N { return model.Num(5) }},
		{func() *model.N { return model.Num(1) }, func() *model.N { return model.Str("2") }, func() *model.N { return model.Num(3) }, func() *model.N { return model.Str("x") }},
		{func() *model.N { return model.Str("5") }, func() *model.N { return model.Num(1) }, func() *model.N { return model.Str("\u099f\u09be\u0995\u09be") }, func() *model.N { return model.Num(2) }},
		{func() *model.N { return model.Num(1) }, func() *model.N { return model.Num(1) }, func() *model.N { return model.Str("\u09e8") }, func() *model.N { return model.Bool(true) }},
		// fractions whose products and sums do not associate, as literals and through variables in every position
		{func() *model.N { return model.Num(0.1) }, func() *model.N { return model.Num(0.2) }, func() *model.N { return model.Num(0.3) }, func() *model.N { return model.Num(1.1) }},
		{func() *model.N { return model.Id("va") }, func() *model.N { return model.Num(0.1) }, func() *model.N { return model.Num(10) }, func() *model.N { return model.Num(0.7) }},
		{func() *model.N { return model.Num(0.1) }, func() *model.N { return model.Id("vb") }, func() *model.N { return model.Num(0.3) }, func() *model.N { return model.Id("va") }},
		{func() *model.N { return model.Num(1.1) }, func() *model.N { return model.Num(0.7) }, func() *model.N { return model.Id("va") }, func() *model.N { return model.Id("vb") }},
		{func() *model.N { return model.CallN("fa") }, func() *model.N { return model.Num(0.1) }, func() *model.N { return model.Num(3) }, func() *model.N { return model.Num(1.1) }},
	}
	leafPrelude := func() []*model.N {
		return []*model.N{model.Var("va", model.Num(3)), model.Var("vb", model.Num(0.2)), model.Fun("fa", nil, model.Return(model.Num(0.7)))}
	}
	for ls := range leafSets {
		L := func(i int) *model.N { return leafSets[ls][i]() }
		for _, o1 := range reps {
			for _, o2 := range reps {
				for _, o3 := range reps {
					shapes := []*model.N{
						mk(o3, mk(o2, mk(o1, L(0), L(1)), L(2)), L(3)),
						mk(o3, mk(o1, L(0), mk(o2, L(1), L(2))), L(3)),
						mk(o2, mk(o1, L(0), L(1)), mk(o3, L(2), L(3))),
						mk(o1, L(0), mk(o3, mk(o2, L(1), L(2)), L(3))),
						mk(o1, L(0), mk(o2, L(1), mk(o3, L(2), L(3)))),
					}
					for si, sh := range shapes {
						if ls == 0 {
							exprCase(sh, fmt.Sprintf("triple|shape%d", si))
						}
						// (c) printing is unchanged by ladder-conform parentheses
						if !c.Mine() {
							continue
						}
						p1 := model.Render(append(leafPrelude(), model.Parenthesize(model.Print(sh), true)))
						p2 := model.Render(append(leafPrelude(), model.Parenthesize(model.Print(sh), false)))
						o1 := h.RunFile(p1, h.Opts{})
						o2 := h.RunFile(p2, h.Opts{})
						c.Eval(p1+p2, true)
						if abnormal(c, o1, "file", p1, fw.Replay{CLI: true}) || abnormal(c, o2, "file", p2, fw.Replay{CLI: true}) {
							continue
						}
						if o1.Stdout != o2.Stdout || o1.Stderr != o2.Stderr || o1.Status != o2.Status {
							c.Violate(fw.Replay{Sig: "C01|paren-print", What: "adding ladder-conform parentheses changes what the program prints", Mode: "file", Program: p1, Related: []string{p2}, CLI: true,
								Expected: fmt.Sprintf("%q / %q", o2.Stdout, o2.Stderr), Observed: fmt.Sprintf("%q / %q", o1.Stdout, o1.Stderr), InStdout: o1.Stdout, InStderr: o1.Stderr, InStatus: o1.Status})
						}
					}
				}
			}
		}
	}
	// calls through names: a parameter (of every name: ordinary, every built-in's) bound to a user
	// function and called; plain, and with ladder-conform parentheses around the callee, the argument,
	// the call: all must print what the reference model says
	{
		names := append([]string{"f", "g2"}, model.Builtins...)
		for _, nm := range names {
			for variant := 0; variant < 4; variant++ {
				if !c.Mine() {
					continue
				}
				callee, arg := model.Id(nm), model.Id("v")
				var call *model.N
				switch variant {
				case 0:
					call = model.Call(callee, arg)
				case 1:
					call = model.Call(model.Grp(callee), arg)
				case 2:
					call = model.Call(callee, model.Grp(arg))
				case 3:
					call = model.Grp(model.Call(callee, arg))
				}
				prog := []*model.N{
					model.Fun("ap", []string{nm, "v"}, model.Return(call)),
					model.Fun("neg", []string{"x"}, model.Return(model.Bin("-", model.Num(0), model.Bin("*", model.Id("x"), model.Num(2))))),
					model.Print(model.CallN("ap", model.Id("neg"), model.Num(5))),
					model.Print(model.CallN("ap", model.Id(model.BiAbs), model.Un("-", model.Num(7)))),
				}
				src := model.Render(prog)
				res := (&model.Machine{}).Run(prog)
				o := h.RunFile(src, h.Opts{})
				c.Eval(src, true)
				base := fw.Replay{Mode: "file", Program: src, CLI: true, InStdout: o.Stdout, InStderr: o.Stderr, InStatus: o.Status}
				if abnormal(c, o, "file", src, base) || res.Unspec != "" {
					continue
				}
				if why := model.CompareStdout(res, o.Stdout); why != "" || o.Status != 0 {
					r := base
					r.Sig = fmt.Sprintf("C01|paren-print|call-through-name|variant%d", variant)
					r.What = "a call through a parameter prints something else than the tree says (with or without ladder-conform parentheses)"
					r.Expected, r.Observed = res.Stdout(), fmt.Sprintf("%q status %d stderr %q (%s)", o.Stdout, o.Status, trunc(o.Stderr, 100), why)
					c.Violate(r)
				}
			}
		}
	}
	// statement skeletons (dangling else, loops, blocks) + declarations
	g := &skGen{maxDepth: 3}
	size := 4
	if !c.Quick() {
		size = 5
	}
	g.stmts(size, skCtx{}, func(s *model.N, used int) {
		if !c.Mine() {
			return
		}
		st := model.FixDangling(model.Parenthesize(s.Clone(), true))
		src := model.Render([]*model.N{st})
		treeCase(c, src, []*model.N{st}, false, "statement")
		c.R.States++
		c.R.Transitions++
	})
	// every if / else tree (no braces anywhere) up to 6 ifs: the rendering wraps a then-branch
	// only where the ladder would otherwise re-attach an else, so both unambiguous and
	// dangling shapes occur
	var ifTrees func(budget int, emit func(*model.N, int))
	leafN := 0
	ifTrees = func(budget int, emit func(*model.N, int)) {
		leafN++
		emit(model.ExprS(model.Id(fmt.Sprintf("s%d", leafN%7))), 0)
		if budget < 1 {
			return
		}
		ifTrees(budget-1, func(t *model.N, ut int) {
			emit(model.If(model.Id("c"), t, nil), 1+ut)
			ifTrees(budget-1-ut, func(e *model.N, ue int) {
				emit(model.If(model.Id("c"), t.Clone(), e), 1+ut+ue)
			})
		})
		ifTrees(budget-1, func(b *model.N, ub int) {
			emit(model.While(model.Id("w"), b), 1+ub)
		})
	}
	maxIfs := 5
	if !c.Quick() {
		maxIfs = 6
	}
	c.Bound("if_tree_max_nodes", maxIfs)
	ifTrees(maxIfs, func(t *model.N, used int) {
		if !c.Mine() {
			return
		}
		st := model.FixDangling(t.Clone())
		src := model.Render([]*model.N{st})
		treeCase(c, src, []*model.N{st}, false, "if-tree")
		c.R.States++
		c.R.Transitions++
	})
	if c.Mine() {
		// else binds to the nearest if: hand-written text, no braces
		src := model.KwIf + " (a) " + model.KwIf + " (b) x; " + model.KwElse + " y;"
		want := []*model.N{model.If(model.Id("a"), model.If(model.Id("b"), model.ExprS(model.Id("x")), model.ExprS(model.Id("y"))), nil)}
		treeCase(c, src, want, false, "dangling-else")
		src = model.KwIf + " (a) " + model.KwWhile + " (c) " + model.KwIf + " (b) x; " + model.KwElse + " y;"
		want = []*model.N{model.If(model.Id("a"), model.While(model.Id("c"), model.If(model.Id("b"), model.ExprS(model.Id("x")), model.ExprS(model.Id("y")))), nil)}
		treeCase(c, src, want, false, "dangling-else")
		// function / return / var forms
		prog := []*model.N{
			model.Fun("f", []string{"p", "q"}, model.Var("z", model.Bin("+", model.Id("p"), model.Id("q"))), model.Return(model.Id("z")), model.Return(nil)),
			model.VarList([]string{"u", "w", "t"}, []*model.N{model.Num(1), nil, model.Arr(model.Num(1))}),
			model.For(model.ExprS(model.Asg("u", model.Num(0))), nil, nil, model.Break()),
			model.For(nil, model.Bin("<", model.Id("u"), model.Num(3)), model.Asg("u", model.Bin("+", model.Id("u"), model.Num(1))), model.Continue()),
		}
		treeCase(c, model.Render(prog), prog, false, "declarations")
	}
	c.R.Traces = c.R.States
	c.Sample(map[string]string{"text": "a = - a ** a . k ( a ) [ a ] ;", "expected": "(asg a (bin ** (un - a) (idx (call (prop a k) a) a)))"})
}

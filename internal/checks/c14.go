package checks

import (
	"fmt"
	"sort"

	"verif/internal/fw"
	"verif/internal/h"
	"verif/internal/model"
)

func init() { Registry["C14"] = C14 }

type pval struct {
	Name string
	Mk   func() *model.N
}

func c14Values() []pval {
	return []pval{
		{"nil", model.Nil},
		{"false", func() *model.N { return model.Bool(false) }},
		{"0", func() *model.N { return model.Num(0) }},
		{"-0", func() *model.N { return model.Un("-", model.Num(0)) }},
		{`""`, func() *model.N { return model.Str("") }},
		{`""+""`, func() *model.N { return model.Bin("+", model.Str(""), model.Str("")) }},
		{"1", func() *model.N { return model.Num(1) }},
		{"2", func() *model.N { return model.Num(2) }},
		{"NaN", func() *model.N {
			inf := func() *model.N { return model.Grp(model.Bin("**", model.Num(10), model.Num(400))) }
			return model.Bin("-", inf(), inf())
		}},
		{`"0"`, func() *model.N { return model.Str("0") }},
		{`" "`, func() *model.N { return model.Str(" ") }},
		{"[]", func() *model.N { return model.Arr() }},
		{"{}", func() *model.N { return model.Obj(nil, nil) }},
		{"uf", func() *model.N { return model.Id("uf") }},
		{"builtin", func() *model.N { return model.Id(model.BiLen) }},
		{"true", func() *model.N { return model.Bool(true) }},
	}
}

func c14Prelude() []*model.N {
	return []*model.N{
		model.Fun("p", []string{"t", "v"}, model.Print(model.Id("t")), model.Return(model.Id("v"))),
		model.Fun("g2", []string{"a", "b"}, model.Print(model.Str("in-g2")), model.Return(model.Id("a"))),
		model.Fun("uf", nil),
		model.Fun("mkg", nil, model.Return(model.Id("g2"))),
		model.Var("w", model.Num(0)),
		model.Var("arr", model.Arr(model.Num(10), model.Num(20), model.Num(30))),
		model.Var("ob", model.Obj([]string{"k"}, []*model.N{model.Num(5)})),
	}
}

// judgeAllSchedules judges a program under every schedule of its choice
// points (unbounded when it has at most 3, else at most 2 deviations).
func judgeAllSchedules(c *fw.Ctx, prog []*model.N, sig string) {
	prog = parenAll(prog)
	src := model.Render(prog)
	calibrate()
	m := &model.Machine{}
	res := m.Run(prog)
	if res.Unspec != "" {
		c.Skip("unspecified: " + res.Unspec)
		return
	}
	if res.Diverged {
		c.Skip("model step budget exceeded")
		return
	}
	// first run decides the bound
	probe := h.RunFile(src, h.Opts{Fuel: fuelFor(res)})
	bound := -1
	if len(probe.Points) > 3 {
		bound = 2
		c.Count("programs_with_deviation_bound_2")
	}
	execs, pts := exploreChoices(c, func(prefix []int) h.Outcome {
		return h.RunFile(src, h.Opts{Prefix: prefix, Fuel: fuelFor(res)})
	}, bound, func(prefix []int, o h.Outcome) {
		c.Eval(fmt.Sprint(prefix)+src, true)
		c.Outcome(o.Stdout + "\x00" + o.FirstDiag())
		base := fw.Replay{Mode: "file", Program: src, Choices: append([]int{}, prefix...), CLI: len(o.Points) == 0,
			InStdout: o.Stdout, InStderr: o.Stderr, InStatus: o.Status}
		if abnormal(c, o, "file", src, base) {
			return
		}
		fail := func(clause, exp, obs string) {
			r := base
			r.Sig = c.Check + "|" + clause + "|" + sig
			if len(o.Points) > 0 {
				r.Sig += "|scheduled"
			}
			r.What = clause
			r.Expected, r.Observed = exp, obs
			c.Violate(r)
		}
		if why := model.CompareStdout(res, o.Stdout); why != "" {
			fail("stdout", res.Stdout(), o.Stdout+"  ("+why+fmt.Sprintf("; schedule %v)", prefix))
		}
		if res.Err == nil {
			if o.Stderr != "" || o.Status != 0 {
				fail("spurious-error", "no diagnostic, status 0", fmt.Sprintf("status %d stderr %q", o.Status, trunc(o.Stderr, 200)))
			}
			return
		}
		if o.Status != 70 || o.Stderr == "" {
			fail("missing-error|"+res.Err.Kind, "runtime error, status 70", fmt.Sprintf("status %d stderr %q", o.Status, trunc(o.Stderr, 200)))
			return
		}
		if got := runtimeDiagLine(o.Stderr); res.Err.Line > 0 && got != res.Err.Line {
			fail("error-line|"+res.Err.Kind, fmt.Sprintf("[line %d]", res.Err.Line), fmt.Sprintf("[line %d]", got))
		}
	})
	c.Add("schedules", int64(execs))
	if pts > 0 {
		c.Count("programs_with_choice_points")
	}
	c.R.States += int64(execs)
	c.R.Transitions += int64(execs)
	c.R.Traces += int64(execs)
}

func C14(c *fw.Ctx) {
	c.R.Rule = "every context (operators, both logical spellings, calls, literals, index, stores, assignment, grouping; depth 2 compositions) with side-effecting probes p(tag, v) as leaves, v over 16 values covering every kind and every falsy value; each program under every iteration-order schedule; truthiness contexts for every value; non-trivial = model-specified; distinct by (schedule, text)"
	vals := c14Values()
	c.Bound("probe_values", len(vals))
	tag := 0
	P := func(v *model.N) *model.N {
		tag++
		return model.CallN("p", model.Str(fmt.Sprintf("T%d", tag)), v)
	}
	pool := newProgPool(40)
	defer func() {
		// every ordered pair of an evenly spread sub-sequence of this shard's probe programs, as `{ P } { Q }`
		composePairs(c, "probes", pool, judgeOpts{})
	}()
	run := func(sig string, e *model.N, extra ...*model.N) {
		prog := append(c14Prelude(), extra...)
		prog = append(prog, model.Print(e))
		tag = 0
		pool.offer(prog)
		judgeAllSchedules(c, prog, sig)
	}
	allOps := append([]string{}, model.BinOps...)
	logOps := []string{"||", "&&", model.KwOr, model.KwAnd}
	// binary and logical: all ordered pairs
	for _, op := range append(allOps, logOps...) {
		for _, a := range vals {
			for _, b := range vals {
				if !c.Mine() {
					continue
				}
				tag = 0
				var e *model.N
				if model.BinLevel[op] == 0 {
					e = model.Log(op, P(a.Mk()), P(b.Mk()))
				} else {
					e = model.Bin(op, P(a.Mk()), P(b.Mk()))
				}
				run("bin"+op, e)
			}
		}
	}
	// the same with one or both operands written as a bare literal / bare expression of the value
	// (no call in between): which operand's value is yielded must not depend on how the operand is written
	for _, op := range append(allOps, logOps...) {
		for _, a := range vals {
			for _, b := range vals {
				if !c.Mine() {
					continue
				}
				mk := func(l, r *model.N) *model.N {
					if model.BinLevel[op] == 0 {
						return model.Log(op, l, r)
					}
					return model.Bin(op, l, r)
				}
				tag = 0
				run("bare-right|bin"+op, mk(P(a.Mk()), b.Mk()))
				tag = 0
				run("bare-left|bin"+op, mk(a.Mk(), P(b.Mk())))
				tag = 0
				run("bare-both|bin"+op, mk(a.Mk(), b.Mk()))
			}
		}
	}
	for _, op := range []string{"-", "!", "~"} {
		for _, a := range vals {
			if !c.Mine() {
				continue
			}
			tag = 0
			run("bare|un"+op, model.Un(op, a.Mk()))
			tag = 0
			run("un"+op, model.Un(op, P(a.Mk())))
			tag = 0
			run("grp", model.Grp(P(a.Mk())))
			tag = 0
			run("asg", model.Asg("w", P(a.Mk())), model.Print(model.Id("w")))
		}
	}
	// effects of other kinds in the same reading order: each operand of a three-operand context is a
	// printing probe, a read of a line of stdin with a prompt (the prompt is output, the line consumed
	// is an effect on the input) or a read without a prompt; every assignment of the three kinds to the
	// three positions, in every context that has three operand positions
	{
		stdin := "l1\nl2\nl3\n"
		lines := []string{"l1", "l2", "l3"}
		kinds := []string{"print", "input-prompt", "input-bare", "input-latin-prompt"}
		type ctx3 struct {
			name string
			mk   func(a, b, d *model.N) []*model.N
		}
		ctxs := []ctx3{
			{"concat", func(a, b, d *model.N) []*model.N { return []*model.N{model.Print(model.Bin("+", model.Bin("+", a, b), d))} }},
			{"concat-right", func(a, b, d *model.N) []*model.N { return []*model.N{model.Print(model.Bin("+", a, model.Grp(model.Bin("+", b, d))))} }},
			{"array-literal", func(a, b, d *model.N) []*model.N { return []*model.N{model.Print(model.Arr(a, b, d))} }},
			{"object-literal", func(a, b, d *model.N) []*model.N { return []*model.N{model.Print(model.Obj([]string{"b", "a", "c"}, []*model.N{a, b, d}))} }},
			{"call-user", func(a, b, d *model.N) []*model.N { return []*model.N{model.Print(model.CallN("g3", a, b, d))} }},
			{"call-builtin", func(a, b, d *model.N) []*model.N { return []*model.N{model.Print(model.CallN(model.BiAppend, model.Arr(), a, b, d))} }},
			{"equality-inside-concat", func(a, b, d *model.N) []*model.N {
				return []*model.N{model.Var("t", model.Obj([]string{"l1", "a"}, []*model.N{model.Arr(model.Num(1)), model.Arr(model.Num(2))})),
					model.Print(model.Bin("+", a, model.Grp(model.Bin("+", model.Grp(model.Bin("==", b, d)), model.Str("")))))}
			}},
			{"declaration-list", func(a, b, d *model.N) []*model.N {
				return []*model.N{model.VarList([]string{"x1", "x2", "x3"}, []*model.N{a, b, d}), model.Print(model.Arr(model.Id("x1"), model.Id("x2"), model.Id("x3")))}
			}},
			{"logical", func(a, b, d *model.N) []*model.N { return []*model.N{model.Print(model.Log("||", model.Log("&&", a, b), d))} }},
			{"statements", func(a, b, d *model.N) []*model.N { return []*model.N{model.Print(a), model.Print(b), model.Print(d)} }},
		}
		mkOperand := func(kind string, pos int) *model.N {
			t := fmt.Sprintf("T%d", pos)
			switch kind {
			case "print":
				return model.CallN("p", model.Str(t), model.Str("v"+t))
			case "input-prompt":
				return model.CallN(model.BiInput, model.Str(t+"? "))
			case "input-latin-prompt":
				return model.CallN(model.BiInputLatin, model.Str(t+"? "))
			}
			return model.CallN(model.BiInput)
		}
		for _, cx := range ctxs {
			for code := 0; code < len(kinds)*len(kinds)*len(kinds); code++ {
				if !c.Mine() {
					continue
				}
				k1, k2, k3 := kinds[code%len(kinds)], kinds[code/len(kinds)%len(kinds)], kinds[code/len(kinds)/len(kinds)]
				prog := append(c14Prelude(), model.Fun("g3", []string{"a", "b", "d"}, model.Print(model.Str("in-g3")), model.Return(model.Arr(model.Id("d"), model.Id("b"), model.Id("a")))))
				prog = append(prog, cx.mk(mkOperand(k1, 1), mkOperand(k2, 2), mkOperand(k3, 3))...)
				prog = append(prog, model.Print(model.Str("end")))
				_, _, skipped := judge(c, prog, judgeOpts{Stdin: stdin, Lines: lines, SigPrefix: "effect-kinds|" + cx.name, NoPrompt: true, NoTwice: true})
				if !skipped {
					c.R.States++
					c.R.Transitions++
				}
			}
		}
	}
	// calls, literals, index, stores: operands over a 5-value pool
	small := []pval{vals[6], vals[2], vals[4], vals[0], vals[11]}
	if !c.Quick() {
		small = vals // every probe value in every position
	}
	c.Bound("operand_pool_for_calls_literals_stores", len(small))
	for _, a := range small {
		for _, b := range small {
			if !c.Mine() {
				continue
			}
			tag = 0
			run("call-user", model.CallN("g2", P(a.Mk()), P(b.Mk())))
			tag = 0
			run("call-builtin", model.CallN(model.BiAppend, P(model.Arr(model.Num(7))), P(a.Mk()), P(b.Mk())))
			tag = 0
			run("call-callee", model.Call(P(model.Id("g2")), P(a.Mk()), P(b.Mk())))
			tag = 0
			run("call-property-of-probed-object", model.Call(model.Prop(P(model.Obj([]string{"f"}, []*model.N{model.Id("g2")})), "f"), P(a.Mk()), P(b.Mk())))
			tag = 0
			run("call-element-of-probed-array", model.Call(model.Idx(P(model.Arr(model.Id("g2"))), P(model.Num(0))), P(a.Mk()), P(b.Mk())))
			tag = 0
			run("call-property-chain", model.Call(model.Prop(model.Prop(P(model.Obj([]string{"in"}, []*model.N{model.Obj([]string{"f"}, []*model.N{model.Id("g2")})})), "in"), "f"), P(a.Mk()), P(b.Mk())))
			tag = 0
			run("call-result-of-probed-call", model.Call(model.Call(P(model.Id("mkg"))), P(a.Mk()), P(b.Mk())))
			tag = 0
			run("call-builtin-property", model.Call(model.Prop(P(model.Obj([]string{"m"}, []*model.N{model.Id(model.BiMax)})), "m"), P(a.Mk()), P(b.Mk())))
			tag = 0
			run("call-arity", model.Call(P(model.Id("g2")), model.Num(1)))
			tag = 0
			run("call-noncallable", model.Call(P(a.Mk()), model.Num(1)))
			for _, d := range small {
				tag = 0
				run("array-literal", model.Arr(P(a.Mk()), P(b.Mk()), P(d.Mk())))
				tag = 0
				run("object-literal", model.Obj([]string{"b", "a", "c"}, []*model.N{P(a.Mk()), P(b.Mk()), P(d.Mk())}))
				tag = 0
				run("object-literal-with-constant-arithmetic", model.Obj([]string{"z", "a", "m"}, []*model.N{P(a.Mk()), P(b.Mk()), P(model.Bin("*", model.Num(60), model.Num(60)))}))
				tag = 0
				run("object-literal-with-constant-arithmetic-nested", model.Obj([]string{"z", "a", "m"}, []*model.N{P(a.Mk()), model.Arr(P(b.Mk()), model.Grp(model.Bin("+", model.Num(1), model.Num(1)))), P(d.Mk())}))
				tag = 0
				run("array-literal-with-constant-arithmetic", model.Arr(P(a.Mk()), model.Bin("-", model.Num(2), model.Num(1)), P(b.Mk()), model.Obj([]string{"y", "x"}, []*model.N{P(d.Mk()), P(model.Bin("+", model.Num(1), model.Num(2)))})))
				tag = 0
				run("index-store", model.IAsg(P(model.Id("arr")), P(a.Mk()), P(b.Mk())), model.Print(model.Id("arr")))
			}
			tag = 0
			run("object-literal-4", model.Obj([]string{"d", "b", "a", "c"}, []*model.N{P(a.Mk()), P(b.Mk()), P(a.Mk()), P(b.Mk())}))
			tag = 0
			run("index", model.Idx(P(model.Id("arr")), P(a.Mk())))
			tag = 0
			run("index-on", model.Idx(P(a.Mk()), P(b.Mk())))
			tag = 0
			run("prop-store", model.PAsg(P(model.Id("ob")), "k", P(a.Mk())), model.Print(model.Id("ob")))
			tag = 0
			run("prop-store-on", model.PAsg(P(a.Mk()), "k", P(b.Mk())))
			tag = 0
			run("prop", model.Prop(P(a.Mk()), "k"))
			tag = 0
			run("nested-literals", model.Arr(P(a.Mk()), model.Obj([]string{"z", "y"}, []*model.N{P(b.Mk()), P(a.Mk())}), P(b.Mk())))
		}
	}
	// declarations with several initialisers, clauses of statements, assignment probes
	for _, a := range small {
		for _, b := range small {
			if !c.Mine() {
				continue
			}
			progs := map[string][]*model.N{}
			tag = 0
			progs["var-list"] = []*model.N{model.VarList([]string{"d1", "d2", "d3"}, []*model.N{P(a.Mk()), P(b.Mk()), P(a.Mk())}), model.Print(model.Arr(model.Id("d1"), model.Id("d2"), model.Id("d3")))}
			tag = 0
			progs["for-clauses"] = []*model.N{model.For(model.Var("i", P(model.Num(0))), model.Bin("<", P(model.Id("i")), P(model.Num(2))), model.Asg("i", model.Bin("+", P(model.Id("i")), P(model.Num(1)))), model.Block(model.Print(P(a.Mk()))))}
			tag = 0
			progs["if-condition"] = []*model.N{model.If(model.Log(model.KwOr, P(a.Mk()), P(b.Mk())), model.Print(P(model.Str("then"))), model.Print(P(model.Str("else"))))}
			tag = 0
			progs["return-value"] = []*model.N{model.Fun("rr", nil, model.Return(model.Arr(P(a.Mk()), P(b.Mk())))), model.Print(model.CallN("rr"))}
			tag = 0
			progs["nested-call-args"] = []*model.N{model.Print(model.CallN("g2", model.CallN("g2", P(a.Mk()), P(b.Mk())), model.CallN("g2", P(b.Mk()), P(a.Mk()))))}
			tag = 0
			progs["chained-index"] = []*model.N{model.Var("mm", model.Arr(model.Arr(model.Num(1), model.Num(2)), model.Arr(model.Num(3), model.Num(4)))), model.Print(model.Idx(model.Idx(P(model.Id("mm")), P(model.Num(1))), P(model.Num(0)))),
				model.ExprS(model.IAsg(model.Idx(P(model.Id("mm")), P(model.Num(0))), P(model.Num(1)), P(a.Mk()))), model.Print(model.Id("mm"))}
			progs["assignment-probes"] = []*model.N{
				model.Print(model.Bin("+", model.Grp(model.Asg("w", model.Bin("+", model.Id("w"), model.Num(1)))), model.Grp(model.Asg("w", model.Bin("*", model.Id("w"), model.Num(10)))))),
				model.Print(model.Id("w")),
				model.Print(model.Arr(model.Asg("w", model.Num(3)), model.Id("w"), model.Asg("w", model.Bin("+", model.Id("w"), model.Num(1))), model.Id("w"))),
				model.Print(model.CallN("g2", model.Asg("w", model.Num(7)), model.Bin("*", model.Id("w"), model.Num(2)))),
				model.ExprS(model.IAsg(model.Id("arr"), model.Grp(model.Asg("w", model.Num(1))), model.Bin("+", model.Id("w"), model.Num(100)))), model.Print(model.Id("arr")),
				model.Print(model.Log(model.KwAnd, model.Grp(model.Asg("w", a.Mk())), model.Grp(model.Asg("w", model.Num(99))))), model.Print(model.Id("w")),
			}
			for name, st := range progs {
				judgeAllSchedules(c, append(c14Prelude(), st...), "stmt|"+name)
			}
		}
	}
	// leaf forms: every context with its holes filled by every combination of
	// {bare variable read, literal, assignment to that variable, call that mutates it}
	leafForms := []struct {
		name string
		mk   func() *model.N
	}{
		{"var", func() *model.N { return model.Id("w") }},
		{"lit", func() *model.N { return model.Num(7) }},
		{"asg", func() *model.N {
			return model.Grp(model.Asg("w", model.Bin("+", model.Bin("*", model.Id("w"), model.Num(2)), model.Num(1))))
		}},
		{"call", func() *model.N { return model.CallN("bump") }},
		{"elem", func() *model.N { return model.Idx(model.Id("wa"), model.Num(0)) }},
		{"fault-div", func() *model.N { return model.Grp(model.Bin("/", model.Num(1), model.Num(0))) }},
		{"fault-neg", func() *model.N { return model.Un("-", model.Str("s")) }},
		{"elem-store", func() *model.N {
			return model.Grp(model.IAsg(model.Id("wa"), model.Num(0), model.Bin("+", model.Idx(model.Id("wa"), model.Num(0)), model.Num(10))))
		}},
	}
	bumpPre := func() []*model.N {
		return append(c14Prelude(), model.Var("wa", model.Arr(model.Num(1))),
			model.Fun("bump", nil, model.ExprS(model.Asg("w", model.Bin("+", model.Id("w"), model.Num(100)))), model.ExprS(model.IAsg(model.Id("wa"), model.Num(0), model.Bin("+", model.Idx(model.Id("wa"), model.Num(0)), model.Num(1000)))), model.Return(model.Id("w"))),
			model.ExprS(model.Asg("w", model.Num(1))))
	}
	twoHole := map[string]func(a, b *model.N) *model.N{
		"call-user": func(a, b *model.N) *model.N { return model.CallN("g2", a, b) },
		"array":     func(a, b *model.N) *model.N { return model.Arr(a, b) },
		"object":    func(a, b *model.N) *model.N { return model.Obj([]string{"z", "y"}, []*model.N{a, b}) },
		"index": func(a, b *model.N) *model.N {
			return model.Idx(model.Arr(model.Num(5), model.Num(6), a), model.Bin("%", b, model.Num(3)))
		},
		"index-store": func(a, b *model.N) *model.N { return model.IAsg(model.Id("arr"), model.Bin("%", a, model.Num(3)), b) },
		"prop-store": func(a, b *model.N) *model.N {
			return model.PAsg(model.Idx(model.Arr(model.Id("ob"), a), model.Num(0)), "k", b)
		},
		"builtin-call": func(a, b *model.N) *model.N { return model.CallN(model.BiMax, a, b) },
		"append":       func(a, b *model.N) *model.N { return model.CallN(model.BiAppend, model.Arr(a), b) },
	}
	for _, op := range append(allOps, logOps...) {
		op := op
		twoHole["bin"+op] = func(a, b *model.N) *model.N {
			if model.BinLevel[op] == 0 {
				return model.Log(op, a, b)
			}
			return model.Bin(op, a, b)
		}
	}
	var thNames []string
	for k := range twoHole {
		thNames = append(thNames, k)
	}
	sort.Strings(thNames)
	for _, cn := range thNames {
		for _, la := range leafForms {
			for _, lb := range leafForms {
				if !c.Mine() {
					continue
				}
				prog := append(bumpPre(), model.Print(twoHole[cn](la.mk(), lb.mk())), model.Print(model.Id("w")), model.Print(model.Id("wa")), model.Print(model.Id("arr")))
				judgeAllSchedules(c, prog, "leaf-forms|"+cn)
			}
		}
	}
	// every pair of operators in an unparenthesised chain of three probes: p op1 p op2 p
	for _, op1 := range append(allOps, logOps...) {
		for _, op2 := range append(allOps, logOps...) {
			for vi, vs := range [][3]float64{{1, 5, 10}, {10, 5, 1}, {0, 0, 1}, {2, 2, 2}} {
				if !c.Mine() {
					continue
				}
				text := fmt.Sprintf("%s p(\"T1\", %v) %s p(\"T2\", %v) %s p(\"T3\", %v);", model.KwPrint, vs[0], op1, vs[1], op2, vs[2])
				stmts, err := model.ParseSource(text)
				if err != nil {
					c.HarnessError("C14 chain does not parse: " + text)
					continue
				}
				_ = vi
				judgeAllSchedules(c, append(c14Prelude(), stmts...), "chain|"+op1+"|"+op2)
			}
		}
	}
	// three holes: a op b op c with every leaf form (left-to-right across a chain)
	for _, op := range append(append([]string{}, allOps...), model.KwOr, model.KwAnd) {
		for _, la := range leafForms {
			for _, lb := range leafForms {
				for _, lc := range leafForms {
					if !c.Mine() {
						continue
					}
					mk := twoHole["bin"+op]
					prog := append(bumpPre(), model.Print(mk(mk(la.mk(), lb.mk()), lc.mk())), model.Print(mk(la.mk(), model.Grp(mk(lb.mk(), lc.mk())))), model.Print(model.Id("w")))
					judgeAllSchedules(c, prog, "leaf-forms3|"+op)
				}
			}
		}
	}
	if !c.Quick() {
		// every two-hole context nested in either hole of every two-hole context, the three leaves over
		// every leaf form
		lf := []int{0, 1, 2, 3, 4, 5, 6, 7}
		c.Bound("nested_context_pairs", len(thNames)*len(thNames)*2)
		for _, outer := range thNames {
			for _, in := range thNames {
				for pos := 0; pos < 2; pos++ {
					for _, i1 := range lf {
						for _, i2 := range lf {
							for _, i3 := range lf {
								if !c.Mine() {
									continue
								}
								var e *model.N
								if pos == 0 {
									e = twoHole[outer](model.Grp(twoHole[in](leafForms[i1].mk(), leafForms[i2].mk())), leafForms[i3].mk())
								} else {
									e = twoHole[outer](leafForms[i1].mk(), model.Grp(twoHole[in](leafForms[i2].mk(), leafForms[i3].mk())))
								}
								prog := append(bumpPre(), model.Print(e), model.Print(model.Id("w")), model.Print(model.Id("wa")), model.Print(model.Id("arr")))
								judgeAllSchedules(c, prog, "nested-contexts|"+outer+"|"+in)
							}
						}
					}
				}
			}
		}
	}
	// depth 2: (□ op1 □) op2 (□ op3 □), probe values 0/1
	inner := []string{"+", model.KwOr, model.KwAnd, "==", "<", "*"}
	if !c.Quick() {
		inner = append(append([]string{}, allOps...), logOps...)
	}
	c.Bound("depth2_inner_operators", len(inner))
	bits := []float64{0, 1}
	for _, op2 := range append(allOps, logOps...) {
		for _, op1 := range inner {
			for _, op3 := range inner {
				for mask := 0; mask < 16; mask++ {
					if !c.Mine() {
						continue
					}
					tag = 0
					mk := func(op string, l, r *model.N) *model.N {
						if model.BinLevel[op] == 0 {
							return model.Log(op, l, r)
						}
						return model.Bin(op, l, r)
					}
					v := func(k int) *model.N { return P(model.Num(bits[(mask>>k)&1])) }
					l := mk(op1, v(0), v(1))
					r := mk(op3, v(2), v(3))
					run("d2|"+op2, mk(op2, model.Grp(l), model.Grp(r)))
				}
			}
		}
	}
	// an operator application with probe operands directly as the condition of if / while / for (no call,
	// grouping or ! around it): operands still evaluated once each, left to right, for every value pair
	for _, op := range append(allOps, logOps...) {
		for _, a := range vals {
			for _, b := range vals {
				if !c.Mine() {
					continue
				}
				mk := func() *model.N {
					tag = 0
					if model.BinLevel[op] == 0 {
						return model.Log(op, P(a.Mk()), P(b.Mk()))
					}
					return model.Bin(op, P(a.Mk()), P(b.Mk()))
				}
				TT := func(s string) *model.N { return model.Print(model.Str(s)) }
				prog := append(c14Prelude(),
					model.If(mk(), TT("then"), TT("else")),
					model.While(mk(), model.Block(TT("while-body"), model.Break())),
					model.For(nil, mk(), nil, model.Block(TT("for-body"), model.Break())),
					TT("end"))
				judgeAllSchedules(c, prog, "condition-root|"+op)
			}
		}
	}
	// truthiness contexts
	T := func(s string) *model.N { return model.Print(model.Str(s)) }
	for _, a := range vals {
		if !c.Mine() {
			continue
		}
		for variant := 0; variant < 2; variant++ {
			mkv := func() *model.N {
				if variant == 0 {
					return a.Mk()
				}
				tag++
				return model.CallN("p", model.Str(fmt.Sprintf("T%d", tag)), a.Mk())
			}
			stmts := []*model.N{
				model.If(mkv(), T("then"), T("else")),
				model.While(mkv(), model.Block(T("while-body"), model.Break())),
				model.For(nil, mkv(), nil, model.Block(T("for-body"), model.Break())),
				model.Print(model.Un("!", mkv())),
				model.Print(model.Un("!", model.Un("!", mkv()))),
			}
			for _, op := range logOps {
				stmts = append(stmts, model.Print(model.Log(op, mkv(), model.Str("R"))))
			}
			for i, s := range stmts {
				tag = 0
				prog := append(c14Prelude(), s)
				judgeAllSchedules(c, prog, fmt.Sprintf("truthy|%d", i))
			}
		}
	}
	c.Sample(map[string]string{"program": model.Render(append(c14Prelude(), model.Print(model.Obj([]string{"b", "a"}, []*model.N{model.CallN("p", model.Str("T1"), model.Num(1)), model.CallN("p", model.Str("T2"), model.Num(2))})))), "schedules": "all permutations of the object-literal iteration"})
}

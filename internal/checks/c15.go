package checks

import (
	"fmt"
	"math"
	"math/big"
	"regexp"
	"strconv"
	"strings"

	"golang.org/x/text/unicode/norm"
	"verif/internal/fw"
	"verif/internal/h"
	"verif/internal/model"
)

func init() { Registry["C15"] = C15 }

var intText = regexp.MustCompile(`^-?[0-9]+$`)
var numText = regexp.MustCompile(`^-?[0-9]+(\.[0-9]+)?([eE][-+]?[0-9]+)?$`)

// sigDigits counts the significant digits of a numeral.
func sigDigits(t string) int {
	t = strings.TrimPrefix(t, "-")
	if i := strings.IndexAny(t, "eE"); i >= 0 {
		t = t[:i]
	}
	t = strings.Replace(t, ".", "", 1)
	t = strings.TrimLeft(t, "0")
	t = strings.TrimRight(t, "0")
	if t == "" {
		return 1
	}
	return len(t)
}

func exactValue(t string) (float64, bool) {
	r, ok := new(big.Rat).SetString(t)
	if !ok {
		return 0, false
	}
	f, _ := r.Float64()
	return f, true
}

// numberTextOK checks the clauses the property states for the text of a
// finite number: reads back to the same double, shortest digits, plain
// integer below one million.
func numberTextOK(text string, v float64) string {
	if !numText.MatchString(text) {
		return "not a decimal numeral"
	}
	back, ok := exactValue(text)
	if !ok || back != v || (v == 0 && false) {
		return fmt.Sprintf("reads back as %v, not %v", back, v)
	}
	if v != 0 {
		short := strconv.FormatFloat(v, 'e', -1, 64)
		if sigDigits(text) > sigDigits(short) {
			return fmt.Sprintf("%d significant digits where %d suffice", sigDigits(text), sigDigits(short))
		}
	}
	if v == math.Trunc(v) && math.Abs(v) < 1e6 && !intText.MatchString(text) {
		return "an integer below one million is written with a fraction or exponent"
	}
	return ""
}

func C15(c *fw.Ctx) {
	c.R.Rule = "numbers: every binade x 5 mantissa patterns, powers of ten 1e-10..1e25 with both neighbours, the exponent-switch neighbourhood, 2^53+-1, d/10, d/3, integer-typed bitwise results, +-0; strings: every string of length <=2 over the Bangla block, Latin letters with combining marks, embedded newline; each value printed alone, inside an array, as a literal-built and as an assigned property, and through \"\"+v; checked: one trailing newline, numeral reads back exactly / shortest / plain integer below 1e6, NFC and canonical equivalence, + splices what দেখাও prints; distinct by program text"
	// ---- numbers
	var nums []float64
	seen := map[uint64]bool{}
	addN := func(f float64) {
		if math.IsNaN(f) || math.IsInf(f, 0) {
			return
		}
		b := math.Float64bits(f)
		if !seen[b] {
			seen[b] = true
			nums = append(nums, f)
		}
	}
	step := 1
	if c.Quick() {
		step = 7
	}
	for exp := uint64(0); exp <= 2046; exp += uint64(step) {
		for _, m := range []uint64{0, 1, 0x8000000000000, 0xFFFFFFFFFFFFE, 0xFFFFFFFFFFFFF, 0x5555555555555} {
			addN(math.Float64frombits(exp<<52 | m))
		}
	}
	for e := -10; e <= 25; e++ {
		p := math.Pow(10, float64(e))
		addN(p)
		addN(math.Nextafter(p, 0))
		addN(math.Nextafter(p, math.Inf(1)))
		addN(-p)
		addN(3 * p)
		addN(1.5 * p)
	}
	for _, f := range []float64{999999, 1000000, 1000001, 999999.5, 100000, 123456, 1234567, 9007199254740991, 9007199254740992, 9007199254740993, 9007199254740994,
		0, math.Copysign(0, -1), 0.1, 0.2, 0.30000000000000004, 1.0 / 3, 2.0 / 3, 100.0 / 3, 0.000123, 0.0001, 0.00001, 123456789012345680, 1e21, 1e20, 5e-324, 1.7976931348623157e308,
		float64(7 & 3), float64(1 << 62), float64(int64(-1) << 63), float64(^int64(0)), float64(1<<53 | 1), 4294967295, 2147483648} {
		addN(f)
		addN(-f)
	}
	for d := 1; d <= 30; d++ {
		addN(float64(d) / 10)
		addN(float64(d) / 3)
		addN(float64(d) / 7)
		addN(float64(d) * 1e5)
	}
	c.Bound("numbers", len(nums))
	lit := func(f float64) *model.N {
		if f < 0 || math.Signbit(f) {
			return model.Un("-", model.NumT(bigLit(-f)))
		}
		return model.NumT(bigLit(f))
	}
	runSrc := func(src string) (h.Outcome, bool) {
		o := h.RunFile(src, h.Opts{})
		c.Eval(src, true)
		if abnormal(c, o, "file", src, fw.Replay{CLI: true}) {
			return o, false
		}
		return o, true
	}
	fail := func(src string, o h.Outcome, clause, exp, obs string) {
		c.Violate(fw.Replay{Sig: "C15|" + clause, What: clause, Mode: "file", Program: src, CLI: true, Expected: exp, Observed: obs, InStdout: o.Stdout, InStderr: o.Stderr, InStatus: o.Status})
	}
	for _, v := range nums {
		if !c.Mine() {
			continue
		}
		alone := model.Render(parenAll([]*model.N{model.Print(lit(v))}))
		o, ok := runSrc(alone)
		if !ok {
			continue
		}
		if o.Status != 0 || o.Stderr != "" || !strings.HasSuffix(o.Stdout, "\n") || strings.Count(o.Stdout, "\n") != 1 {
			fail(alone, o, "number-line", "one line, status 0", fmt.Sprintf("%q status %d stderr %q", o.Stdout, o.Status, trunc(o.Stderr, 80)))
			continue
		}
		text := strings.TrimSuffix(o.Stdout, "\n")
		if why := numberTextOK(text, v); why != "" {
			fail(alone, o, "number-text", fmt.Sprintf("a shortest numeral of %v", v), text+" ("+why+")")
		}
		// same text through + and inside containers
		ctx := map[string][]*model.N{
			"concat":        {model.Print(model.Bin("+", model.Str(""), lit(v)))},
			"concat-right":  {model.Print(model.Bin("+", lit(v), model.Str("")))},
			"array":         {model.Print(model.Arr(lit(v)))},
			"literal-prop":  {model.Print(model.Obj([]string{"k"}, []*model.N{lit(v)}))},
			"assigned-prop": {model.Var("ob", model.Obj(nil, nil)), model.ExprS(model.PAsg(model.Id("ob"), "k", lit(v))), model.Print(model.Id("ob"))},
			"via-variable":  {model.Var("w", lit(v)), model.Print(model.Id("w"))},
			// what + produced is a text: a further + splices again, it never adds
			"concat-then-number":       {model.Print(model.Bin("+", model.Grp(model.Bin("+", model.Str(""), lit(v))), model.Num(1)))},
			"concat-right-then-number": {model.Print(model.Bin("+", model.Grp(model.Bin("+", lit(v), model.Str(""))), model.Num(1)))},
			"concat-twice":             {model.Print(model.Bin("+", model.Grp(model.Bin("+", model.Str(""), lit(v))), model.Grp(model.Bin("+", lit(v), model.Str("")))))},
			"accumulated":              {model.Var("acc", model.Str("")), model.ExprS(model.Asg("acc", model.Bin("+", model.Id("acc"), lit(v)))), model.ExprS(model.Asg("acc", model.Bin("+", model.Id("acc"), lit(v)))), model.Print(model.Id("acc"))},
		}
		for name, prog := range ctx {
			src := model.Render(parenAll(prog))
			oc, ok := runSrc(src)
			if !ok {
				continue
			}
			switch name {
			case "concat-then-number", "concat-right-then-number", "concat-twice", "accumulated":
				want := map[string]string{"concat-then-number": text + "1", "concat-right-then-number": text + "1", "concat-twice": text + text, "accumulated": text + text}[name] + "\n"
				if oc.Stdout != want || oc.Status != 0 {
					fail(src, oc, "number-"+name, fmt.Sprintf("%q", want), fmt.Sprintf("%q status %d", oc.Stdout, oc.Status))
				}
			case "concat", "concat-right", "via-variable":
				if oc.Stdout != o.Stdout || oc.Status != 0 {
					fail(src, oc, "number-"+name, fmt.Sprintf("%q as printed alone", o.Stdout), fmt.Sprintf("%q", oc.Stdout))
				}
			default:
				found := false
				for _, a := range strings.FieldsFunc(strings.TrimSuffix(oc.Stdout, "\n"), func(r rune) bool { return strings.ContainsRune("[]{}:, ", r) }) {
					if a == text {
						found = true
					}
				}
				if !found || oc.Status != 0 || strings.Count(oc.Stdout, "\n") != 1 {
					fail(src, oc, "number-in-"+name, "the numeral "+text+" inside the container, one line", fmt.Sprintf("%q", oc.Stdout))
				}
			}
		}
	}
	// ---- numbers that come out of the integer operators (wide ones that no double holds exactly among
	// them): the splice on either side of + and inside containers is what দেখাও prints
	{
		num := model.Num
		sh := func(a, b float64) *model.N { return model.Grp(model.Bin("<<", num(a), num(b))) }
		exprs := []func() *model.N{
			func() *model.N { return model.Grp(model.Bin("|", sh(1, 53), num(1))) },
			func() *model.N { return model.Un("~", sh(1, 53)) },
			func() *model.N { return model.Grp(model.Bin("^", sh(1, 62), num(3))) },
			func() *model.N { return sh(1, 62) },
			func() *model.N { return model.Grp(model.Bin("|", sh(1, 62), num(1))) },
			func() *model.N {
				return model.Grp(model.Bin("&", model.Un("~", num(0)), model.Grp(model.Bin("|", sh(1, 60), num(5)))))
			},
			func() *model.N { return model.Grp(model.Bin(">>", model.Un("~", num(0)), num(1))) },
			func() *model.N { return model.Un("~", num(0)) },
			func() *model.N { return model.Grp(model.Bin("&", num(7), num(3))) },
			func() *model.N { return model.Grp(model.Bin("|", sh(1, 31), sh(1, 32))) },
			func() *model.N { return sh(3, 61) },
			func() *model.N { return model.Grp(model.Bin("^", model.Un("~", num(0)), sh(1, 54))) },
		}
		for _, e := range exprs {
			if !c.Mine() {
				continue
			}
			alone := model.Render(parenAll([]*model.N{model.Print(e())}))
			o, ok := runSrc(alone)
			if !ok || o.Status != 0 {
				continue
			}
			text := strings.TrimSuffix(o.Stdout, "\n")
			for name, pr := range map[string]*model.N{
				"left-of-text":     model.Print(model.Bin("+", e(), model.Str(""))),
				"right-of-text":    model.Print(model.Bin("+", model.Str(""), e())),
				"left-of-bar":      model.Print(model.Bin("+", e(), model.Str("|"))),
				"between":          model.Print(model.Bin("+", model.Bin("+", model.Str("<"), e()), model.Str(">"))),
				"through-variable": model.Print(model.Bin("+", model.CallN("idw", e()), model.Str(""))),
			} {
				src := model.Render(parenAll([]*model.N{model.Fun("idw", []string{"x"}, model.Return(model.Id("x"))), pr}))
				oc, ok := runSrc(src)
				if !ok {
					continue
				}
				want := map[string]string{"left-of-text": text, "right-of-text": text, "left-of-bar": text + "|", "between": "<" + text + ">", "through-variable": text}[name] + "\n"
				if oc.Stdout != want || oc.Status != 0 {
					fail(src, oc, "integer-operator-result-"+name, fmt.Sprintf("%q", want), fmt.Sprintf("%q status %d", oc.Stdout, oc.Status))
				}
			}
			judge(c, []*model.N{model.Print(e()), model.Print(model.Arr(e())), model.Print(model.Bin("==", e(), e()))}, judgeOpts{SigPrefix: "integer-operator-result"})
		}
	}
	// ---- nil, booleans
	if c.Mine() {
		for _, kv := range [][2]string{{"nil", "nil"}, {model.KwTrue, "true"}, {model.KwFalse, "false"}} {
			src := model.KwPrint + " " + kv[0] + ";"
			if o, ok := runSrc(src); ok && o.Stdout != kv[1]+"\n" {
				fail(src, o, "constant-text", kv[1], o.Stdout)
			}
		}
	}
	// ---- strings
	var strs []string
	for a := rune(0x0980); a <= 0x09FF; a++ {
		strs = append(strs, string(a))
		for b := rune(0x0980); b <= 0x09FF; b++ {
			strs = append(strs, string(a)+string(b))
		}
	}
	marks := []rune{0x0300, 0x0301, 0x0308, 0x0323, 0x0327, 0x09BC, 0x09BE, 0x09D7}
	for _, base := range []rune{'a', 'e', 'A', 'o', 'c', 0x09A1, 0x09A2, 0x09AF, 0x09C7} {
		for _, m1 := range marks {
			strs = append(strs, string(base)+string(m1))
			for _, m2 := range marks {
				strs = append(strs, string(base)+string(m1)+string(m2))
			}
		}
	}
	strs = append(strs, "", " ", "a\nb", "\n", "line1\nline2\n", "é", "é", "ো", "ো", "ড়", "ড়", "য়", "য়", "tab\there", "[1 2]", "<nil>", "map[k:v]", "  padded  ", "0", "-0", "1e6")
	// every printable ASCII character alone, and % (special to message formatting) before and after every
	// letter and digit, doubled, trailing, leading
	for r := rune(0x20); r <= 0x7e; r++ {
		if r == '"' {
			continue
		}
		strs = append(strs, string(r))
		if (r >= 'a' && r <= 'z') || (r >= 'A' && r <= 'Z') || (r >= '0' && r <= '9') {
			strs = append(strs, "%"+string(r), string(r)+"%", "%%"+string(r), "x%"+string(r)+"y")
		}
	}
	strs = append(strs, "%", "%%", "100%", "50% off", "%d %s %v", "%!", "%[1]d", "a\\b", "\\", "a\\nb", "{}", "[line 1]")
	c.Bound("strings", len(strs))
	for _, s := range strs {
		if !c.Mine() {
			continue
		}
		want := norm.NFC.String(s)
		alone := model.Render([]*model.N{model.Print(model.Str(s))})
		o, ok := runSrc(alone)
		if !ok {
			continue
		}
		if o.Stdout != want+"\n" || o.Status != 0 {
			fail(alone, o, "string-text", fmt.Sprintf("%q", want+"\n"), fmt.Sprintf("%q", o.Stdout))
			continue
		}
		progs := map[string][]*model.N{
			"concat":        {model.Print(model.Bin("+", model.Str(""), model.Str(s)))},
			"concat-halves": {model.Print(model.Bin("+", model.Str(string([]rune(s + " ")[:1])), model.Str(string([]rune(s + " ")[1:]))))},
			"array":         {model.Print(model.Arr(model.Str(s)))},
			"literal-prop":  {model.Print(model.Obj([]string{"k"}, []*model.N{model.Str(s)}))},
			"assigned-prop": {model.Var("ob", model.Obj(nil, nil)), model.ExprS(model.PAsg(model.Id("ob"), "k", model.Str(s))), model.Print(model.Id("ob"))},
			"element":       {model.Var("ar", model.Arr(model.Str(s))), model.Print(model.Idx(model.Id("ar"), model.Num(0)))},
			"returned":      {model.Fun("rs", nil, model.Return(model.Str(s))), model.Print(model.CallN("rs"))},
		}
		for name, prog := range progs {
			src := model.Render(parenAll(prog))
			oc, ok := runSrc(src)
			if !ok {
				continue
			}
			switch name {
			case "concat", "element", "returned":
				if oc.Stdout != o.Stdout || oc.Status != 0 {
					fail(src, oc, "string-"+name, fmt.Sprintf("%q", o.Stdout), fmt.Sprintf("%q", oc.Stdout))
				}
			case "concat-halves":
				if oc.Stdout != norm.NFC.String(s+" ")+"\n" || oc.Status != 0 {
					fail(src, oc, "string-"+name, fmt.Sprintf("%q", norm.NFC.String(s+" ")+"\n"), fmt.Sprintf("%q", oc.Stdout))
				}
			default:
				body := strings.TrimSuffix(oc.Stdout, "\n")
				if oc.Status != 0 || !strings.HasSuffix(oc.Stdout, "\n") || !norm.NFC.IsNormalString(body) || (want != "" && !strings.Contains(body, want)) {
					// characters at the seam with the container syntax may compose; compare canonically
					if oc.Status == 0 && strings.HasSuffix(oc.Stdout, "\n") && norm.NFC.IsNormalString(body) && strings.Contains(norm.NFD.String(body), norm.NFD.String(s)) {
						continue
					}
					fail(src, oc, "string-in-"+name, fmt.Sprintf("the characters %q inside the container, NFC, one trailing newline", want), fmt.Sprintf("%q", oc.Stdout))
				}
			}
		}
	}
	// the same array / object reachable several times from one printed value (no cycle)
	if c.Mine() {
		id := model.Id
		shared := [][]*model.N{
			{model.Var("s", model.Arr(model.Num(1), model.Num(2))), model.Print(model.Arr(id("s"), id("s")))},
			{model.Var("s", model.Arr(model.Num(1), model.Num(2))), model.Print(model.Obj([]string{"p", "q"}, []*model.N{id("s"), id("s")}))},
			{model.Var("o", model.Obj([]string{"k"}, []*model.N{model.Str("v")})), model.Print(model.Arr(id("o"), id("o"), id("o")))},
			{model.Var("s", model.Arr(model.Num(1))), model.Print(model.Arr(model.Arr(id("s"), model.Num(3)), model.Arr(id("s"), model.Num(4))))},
			{model.Var("e", model.Arr()), model.Var("eo", model.Obj(nil, nil)), model.Print(model.Arr(id("e"), id("e"), id("eo"), id("eo")))},
			{model.Var("s", model.Arr(model.Str("x"))), model.Var("t", model.Arr(id("s"), id("s"))), model.Print(model.Arr(id("t"), id("t"), id("s")))},
			{model.Var("o", model.Obj([]string{"k"}, []*model.N{model.Arr(model.Num(1))})), model.Print(model.Obj([]string{"a", "b"}, []*model.N{id("o"), model.Prop(id("o"), "k")})), model.Print(id("o"))},
			{model.Var("s", model.Arr(model.Num(1), model.Num(2))), model.Print(model.Bin("+", model.Str(""), model.Num(1))), model.Print(model.CallN(model.BiAppend, model.Arr(id("s")), id("s")))},
		}
		for _, pr := range shared {
			judge(c, pr, judgeOpts{SigPrefix: "shared-container"})
		}
	}
	// objects show all their properties whatever the property names are made of: names from a pool (letters
	// that normalisation rewrites, two-part vowel signs, marks out of canonical order, canonically equivalent
	// pairs, ordinary names) in every ordered pair, built by a literal and by stores, shown whole, nested in an
	// array and in another object, and after each name was read
	{
		id, num := model.Id, model.Num
		names := append([]string{"a", "\u0995\u09cb", "\u0995\u09c7\u09be", "\u0995\u09c7\u09d7", "x\u0323\u0301", "x\u0301\u0323", "\u00e9", "e\u0301"}, normalisationSensitiveNames...)
		for i, n1 := range names {
			for j, n2 := range names {
				if i == j || !c.Mine() {
					continue
				}
				progs := [][]*model.N{
					{model.Var("o", model.Obj([]string{n1, n2}, []*model.N{num(1), model.Str("two")})), model.Print(id("o")), model.Print(model.Arr(id("o"))), model.Print(model.Obj([]string{"w"}, []*model.N{id("o")})),
						model.Print(model.Prop(id("o"), n1)), model.Print(model.Prop(id("o"), n2)), model.Print(id("o"))},
					{model.Var("o", model.Obj(nil, nil)), model.ExprS(model.PAsg(id("o"), n1, num(1))), model.Print(id("o")), model.ExprS(model.PAsg(id("o"), n2, model.Arr(num(2)))), model.Print(id("o")),
						model.Print(model.Bin("+", model.Str(">"), id("o")))},
				}
				for _, pr := range progs {
					judge(c, pr, judgeOpts{SigPrefix: "property-names-of-every-make"})
				}
			}
		}
	}
	scaleStrings(c)
	// what is shown follows the value through its history: every sequence of up to four steps (five when
	// not quick) over {print, list keys, list values, remove a / b, add c / a, overwrite b, print inside an
	// array} on one object, and over {print, append, remove first, store, print length, print nested} on
	// one array; all properties / elements are shown after every history
	{
		id, num := model.Id, model.Num
		type step struct {
			name string
			mk   func(k float64) []*model.N
		}
		ex := func(e *model.N) []*model.N { return []*model.N{model.ExprS(e)} }
		pr := func(e *model.N) []*model.N { return []*model.N{model.Print(e)} }
		objSteps := []step{
			{"print", func(k float64) []*model.N { return pr(id("o")) }},
			{"keys", func(k float64) []*model.N { return pr(model.CallN(model.BiKeys, id("o"))) }},
			{"values", func(k float64) []*model.N { return pr(model.CallN(model.BiValues, id("o"))) }},
			{"remove-a", func(k float64) []*model.N { return ex(model.CallN(model.BiDelete, id("o"), model.Str("a"))) }},
			{"remove-b", func(k float64) []*model.N { return ex(model.CallN(model.BiDelete, id("o"), model.Str("b"))) }},
			{"add-c", func(k float64) []*model.N { return ex(model.PAsg(id("o"), "c", num(k))) }},
			{"add-a", func(k float64) []*model.N { return ex(model.PAsg(id("o"), "a", num(k))) }},
			{"set-b", func(k float64) []*model.N { return ex(model.PAsg(id("o"), "b", model.Str("t"))) }},
			{"print-nested", func(k float64) []*model.N {
				return pr(model.Arr(id("o"), model.Obj([]string{"in"}, []*model.N{id("o")})))
			}},
		}
		arrSteps := []step{
			{"print", func(k float64) []*model.N { return pr(id("o")) }},
			{"append", func(k float64) []*model.N { return ex(model.Asg("o", model.CallN(model.BiAppend, id("o"), num(k)))) }},
			{"remove-first", func(k float64) []*model.N { return ex(model.Asg("o", model.CallN(model.BiRemove, id("o"), num(0)))) }},
			{"store", func(k float64) []*model.N { return ex(model.IAsg(id("o"), num(0), model.Str(""))) }},
			{"length", func(k float64) []*model.N { return pr(model.CallN(model.BiLen, id("o"))) }},
			{"print-nested", func(k float64) []*model.N {
				return pr(model.Arr(id("o"), model.Obj([]string{"in"}, []*model.N{id("o")})))
			}},
		}
		maxLen := 4
		if !c.Quick() {
			maxLen = 5
		}
		c.Bound("shown_after_history_max_steps", maxLen)
		walk := func(tag string, start func() *model.N, steps []step) {
			var hist []int
			var rec func()
			rec = func() {
				prog := []*model.N{model.Var("o", start())}
				for i, si := range hist {
					prog = append(prog, steps[si].mk(float64(10*(i+1)))...)
				}
				prog = append(prog, model.Print(id("o")), model.Print(model.Arr(id("o"), id("o"))))
				res := (&model.Machine{}).Run(parenAll(prog))
				if c.Mine() {
					judge(c, prog, judgeOpts{SigPrefix: "shown-after-history|" + tag, NoOneLine: true})
				}
				if res.Err != nil || res.Unspec != "" || len(hist) >= maxLen {
					return
				}
				for si := range steps {
					hist = append(hist, si)
					rec()
					hist = hist[:len(hist)-1]
				}
			}
			rec()
		}
		walk("object", func() *model.N { return model.Obj([]string{"b", "a"}, []*model.N{num(2), num(1)}) }, objSteps)
		walk("array", func() *model.N { return model.Arr(num(1), model.Str("x")) }, arrSteps)
	}
	// every array of up to three elements over {"", "x", 5, nil, []}: each element shows, in order
	{
		pool := []func() *model.N{func() *model.N { return model.Str("") }, func() *model.N { return model.Str("x") }, func() *model.N { return model.Num(5) }, model.Nil, func() *model.N { return model.Arr() },
			func() *model.N { return model.Bin("+", model.Str(""), model.Str("")) }}
		for n := 1; n <= 3; n++ {
			idx := make([]int, n)
			for {
				if c.Mine() {
					var el, el2 []*model.N
					for _, i := range idx {
						el = append(el, pool[i]())
						el2 = append(el2, pool[i]())
					}
					judge(c, []*model.N{model.Print(model.Arr(el...)), model.Print(model.Arr(model.Arr(el2...), model.Num(2))), model.Print(model.Obj([]string{"k"}, []*model.N{model.Arr(pool[idx[0]](), model.Str("t"))}))}, judgeOpts{SigPrefix: "small-arrays"})
				}
				k := n - 1
				for k >= 0 {
					idx[k]++
					if idx[k] < len(pool) {
						break
					}
					idx[k] = 0
					k--
				}
				if k < 0 {
					break
				}
			}
		}
	}
	// nested containers of the above
	if c.Mine() {
		prog := []*model.N{model.Print(model.Arr(model.Str("ক"), model.Arr(model.Num(1.5), model.Nil(), model.Bool(true)), model.Obj([]string{"z", "a"}, []*model.N{model.Str("é"), model.Arr(model.Num(1000000))})))}
		judge(c, prog, judgeOpts{SigPrefix: "nested"})
	}
	c.Sample(map[string]string{"program": model.KwPrint + " 0.30000000000000004;", "expected": "0.30000000000000004"})
	c.Sample(map[string]string{"program": model.KwPrint + " [\"e\\u0301\"];", "expected": "[é] in NFC"})
}

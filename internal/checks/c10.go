package checks

import (
	"fmt"
	"math"
	"math/big"
	"strconv"
	"strings"

	"verif/internal/fw"
	"verif/internal/h"
	"verif/internal/model"
)

func init() { Registry["C10"] = C10 }

var asciiDigits = []rune("0123456789")
var banglaDigits = []rune("০১২৩৪৫৬৭৮৯")

func toScript(lit string, script int) string {
	var sb strings.Builder
	i := 0
	for _, r := range lit {
		if r >= '0' && r <= '9' {
			switch script {
			case 1:
				r = banglaDigits[r-'0']
			case 2:
				if i%2 == 1 {
					r = banglaDigits[r-'0']
				}
			}
			i++
		}
		sb.WriteRune(r)
	}
	return sb.String()
}

// literalCase lexes one literal and compares with the exact model value.
func literalCase(c *fw.Ctx, lit string, family string) {
	toks, o := h.Lex(lit, h.Opts{Fuel: 400000})
	mt, merrs := model.Lex(lit)
	c.Eval(lit, true)
	if abnormal(c, o, "lex", lit, fw.Replay{}) {
		return
	}
	fail := func(clause, exp, obs string) {
		c.Violate(fw.Replay{Sig: "C10|" + clause + "|" + family, What: clause, Mode: "lex", Program: lit, Expected: exp, Observed: obs})
	}
	if len(toks) != len(mt) {
		fail("token-structure", renderModel(mt), renderImpl(toks))
		return
	}
	for i := range mt {
		if kindOf(toks[i].Type) != mt[i].Kind || toks[i].Lexeme != mt[i].Lexeme {
			fail("token-structure", renderModel(mt), renderImpl(toks))
			return
		}
		if mt[i].Kind == "NUMBER" {
			f, ok := toks[i].Literal.(float64)
			if !ok || math.Float64bits(f) != math.Float64bits(mt[i].Num) {
				fail("value", fmt.Sprintf("%v (bits %x)", mt[i].Num, math.Float64bits(mt[i].Num)), fmt.Sprintf("%v", toks[i].Literal))
				return
			}
			c.Outcome(strconv.FormatUint(math.Float64bits(f), 16))
		}
	}
	nd := len(diagLines(o.Stderr))
	if nd != len(merrs) || o.HadError != (len(merrs) > 0) {
		fail("diagnostic", fmt.Sprintf("%d diagnostics", len(merrs)), fmt.Sprintf("%d: %q flag=%v", nd, trunc(o.Stderr, 200), o.HadError))
	}
}

func exactDecimal(r *big.Rat) string {
	// r has a power-of-two denominator (or small decimal tweaks): 1100 places suffice
	s := r.FloatString(1100)
	if strings.Contains(s, ".") {
		s = strings.TrimRight(s, "0")
		s = strings.TrimSuffix(s, ".")
	}
	return s
}

func C10(c *fw.Ctx) {
	c.R.Rule = "per-code-point transliteration/classification over all scalar values; every digit string (20 digit characters, optional point at every position) up to the length bound; for every binade x mantissa pattern the exact decimal expansion of the double, of the midpoint to its successor and of midpoint ± one unit in a further place, in three scripts; overflow threshold family; every case is non-trivial (a literal); distinct by text"
	// (a) transliteration and classification on every code point
	for r := rune(0); r <= 0x10FFFF; r++ {
		if r >= 0xD800 && r <= 0xDFFF {
			continue
		}
		if !c.Mine() {
			continue
		}
		in := "x" + string(r) + "y"
		h.Inflight("convert", in)
		got := h.ConvertDigits(in)
		want := in
		isBn := r >= 0x09E6 && r <= 0x09EF
		if isBn {
			want = "x" + string(rune('0'+(r-0x09E6))) + "y"
		}
		c.Eval(in, true)
		if got != want {
			c.Violate(fw.Replay{Sig: fmt.Sprintf("C10|transliterate|%v", isBn), What: "transliteration of a single code point", Mode: "convert", Program: in,
				Expected: fmt.Sprintf("%q", want), Observed: fmt.Sprintf("%q", got)})
		}
		// classification: □ continues a number iff it is one of the 20 digits
		literalCase(c, "1"+string(r), "classify")
	}
	// (b) all digit strings with a point at every position
	maxLen := 4
	if !c.Quick() {
		maxLen = 5
	}
	c.Bound("digit_string_max_len", maxLen)
	digs := append(append([]rune{}, asciiDigits...), banglaDigits...)
	var rec func(cur []rune)
	rec = func(cur []rune) {
		if len(cur) > 0 {
			if c.Mine() {
				literalCase(c, string(cur), "digits")
			}
			for p := 1; p < len(cur); p++ {
				if c.Mine() {
					literalCase(c, string(cur[:p])+"."+string(cur[p:]), "digits-point")
				}
			}
		}
		if len(cur) == maxLen {
			return
		}
		for _, d := range digs {
			rec(append(cur, d))
		}
	}
	rec(nil)
	// (c) binades
	mants := []uint64{0, 1, 0x8000000000000, 0xFFFFFFFFFFFFE, 0xFFFFFFFFFFFFF}
	nb := 0
	for exp := uint64(0); exp <= 2046; exp++ {
		for _, m := range mants {
			bits := exp<<52 | m
			d := math.Float64frombits(bits)
			if d == 0 {
				continue
			}
			nb++
			if !c.Mine() {
				continue
			}
			var lits []string
			rd := new(big.Rat).SetFloat64(d)
			lits = append(lits, exactDecimal(rd))
			if bits+1 < 0x7FF0000000000000 {
				nx := new(big.Rat).SetFloat64(math.Float64frombits(bits + 1))
				mid := new(big.Rat).Add(rd, nx)
				mid.Quo(mid, big.NewRat(2, 1))
				ms := exactDecimal(mid)
				lits = append(lits, ms)
				if !strings.Contains(ms, ".") {
					ms += ".0"
				}
				lits = append(lits, ms+"1") // just above the midpoint
				// just below: decrement last digit (non-zero by construction) and append 9
				b := []byte(ms)
				for k := len(b) - 1; k >= 0; k-- {
					if b[k] == '.' {
						continue
					}
					if b[k] > '0' {
						b[k]--
						break
					}
					b[k] = '9'
				}
				lits = append(lits, string(b)+"9")
			}
			for _, l := range lits {
				for s := 0; s < 3; s++ {
					literalCase(c, toScript(l, s), "binade")
				}
			}
		}
	}
	c.Bound("binade_doubles", nb)
	// (d) overflow threshold
	if c.Mine() {
		maxd := new(big.Rat).SetFloat64(math.MaxFloat64)
		two1024 := new(big.Rat).SetInt(new(big.Int).Lsh(big.NewInt(1), 1024))
		half := new(big.Rat).Add(maxd, two1024)
		half.Quo(half, big.NewRat(2, 1))
		hs := exactDecimal(half)
		hi, _ := new(big.Int).SetString(hs, 10)
		for _, l := range []string{exactDecimal(maxd), hs, new(big.Int).Sub(hi, big.NewInt(1)).String(), new(big.Int).Add(hi, big.NewInt(1)).String(),
			exactDecimal(two1024), "1" + strings.Repeat("0", 400), strings.Repeat("9", 400), strings.Repeat("9", 400) + ".5", "0." + strings.Repeat("0", 400) + "1",
			"0." + strings.Repeat("0", 330), "179769313486231570000000000000000000000000000000000000000000000000000000000000000000000000000000000000000000000000000000000000000000000000000000000000000000000000000000000000000000000000000000000000000000000000000000000000000000000000000000000000000000000000000000000000000000000000000000000000000000000000"} {
			for s := 0; s < 3; s++ {
				literalCase(c, toScript(l, s), "overflow")
			}
		}
		// (e) points that are not part of the number
		for _, l := range []string{"1.", "1.a", "1..2", "1.২", "১.2", ".5", "1.2.3", "1 .2", "1.\n2", "০.০", "1.5.", "1e5", "0x10", "1_000", "٣", "1٣", "１"} {
			literalCase(c, l, "point")
		}
	}
	// (f) the value reaches the interpreter unchanged: দেখাও <literal>;
	for _, l := range []string{"0", "7", "10", "০.৫", "১২৩৪৫", "3.25", "9007199254740993", "0.1", "123456.789", "৯৯৯৯৯৯", "4.9406564584124654e-324"} {
		if !c.Mine() {
			continue
		}
		if strings.ContainsAny(l, "e") {
			continue
		}
		prog := model.KwPrint + " " + l + ";"
		o := h.RunFile(prog, h.Opts{})
		c.Eval(prog, true)
		if abnormal(c, o, "file", prog, fw.Replay{}) {
			continue
		}
		want, _ := model.LiteralValue(l)
		got, err := strconv.ParseFloat(strings.TrimSpace(o.Stdout), 64)
		if err != nil || got != want || o.Status != 0 {
			c.Violate(fw.Replay{Sig: "C10|print-value", What: "printed literal denotes another number", Mode: "file", Program: prog, CLI: true,
				Expected: fmt.Sprint(want), Observed: fmt.Sprintf("%q status %d", o.Stdout, o.Status), InStdout: o.Stdout, InStderr: o.Stderr, InStatus: o.Status})
		}
	}
	// (g) a literal means the same every time it is read in one process: the line `দেখাও <literal>;` three
	// times in one interactive session (and between two other literals) answers each time as in a fresh one
	{
		maxd := exactDecimal(new(big.Rat).SetFloat64(math.MaxFloat64))
		pool := []string{"0", "7", "০.৫", "3.25", "9007199254740993", "0.1", "1" + strings.Repeat("0", 400), strings.Repeat("9", 400) + ".5", maxd, maxd + "0",
			"0." + strings.Repeat("0", 400) + "1", "1.2.3", "1.", "007", "7.0", "১২৩৪৫", "12345", "1٣"}
		for _, l := range pool {
			for sc := 0; sc < 3; sc++ {
				if !c.Mine() {
					continue
				}
				lit := toScript(l, sc)
				line := model.KwPrint + " " + lit + ";\n"
				other := model.KwPrint + " " + toScript(l, (sc+1)%3) + "0;\n"
				fresh := h.RunRepl(line, h.Opts{})
				for _, session := range []string{line + line + line, other + line + other + line} {
					o := h.RunRepl(session, h.Opts{})
					c.Eval(session, true)
					base := fw.Replay{Mode: "repl", Program: session, CLI: true, InStdout: trunc(o.Stdout, 600), InStderr: trunc(o.Stderr, 600), InStatus: o.Status}
					if abnormal(c, o, "repl", trunc(session, 200), base) || abnormal(c, fresh, "repl", trunc(line, 200), base) {
						continue
					}
					fr, ok1 := splitPrompts(fresh.Stdout)
					rs, ok2 := splitPrompts(o.Stdout)
					bad := !ok1 || !ok2 || len(fr) != 2 || o.Status != 0
					nLines := strings.Count(session, "\n")
					if !bad && len(rs) != nLines+1 {
						bad = true
					}
					if !bad {
						li := 0
						for _, ln := range strings.SplitAfter(session, "\n") {
							if ln == line && rs[li] != fr[0] {
								bad = true
							}
							if ln != "" {
								li++
							}
						}
						if strings.Count(o.Stderr, "Error") < strings.Count(fresh.Stderr, "Error")*strings.Count(session, line) {
							bad = true
						}
					}
					if bad {
						r := base
						r.Sig = "C10|repeated-literal"
						r.What = "a literal read again in the same process is answered differently from its first reading"
						r.Expected = fmt.Sprintf("every `%s` line answered as in a fresh session: stdout %q stderr %q", trunc(line, 60), trunc(fresh.Stdout, 80), trunc(fresh.Stderr, 80))
						r.Observed = fmt.Sprintf("stdout %q stderr %q status %d", trunc(o.Stdout, 300), trunc(o.Stderr, 300), o.Status)
						c.Violate(r)
					}
				}
			}
		}
	}
	c.Sample(map[string]string{"literal": "১7.০5", "expected_value": "17.05"})
	c.Sample(map[string]string{"literal": "4.9406564584124654417656879286822137236505980e-324 written out as an exact decimal (binade family)", "expected_value": "min subnormal"})
}

package checks

import (
	"context"
	"fmt"
	"os"
	"os/exec"
	"path/filepath"
	"strings"
	"time"

	"verif/internal/fw"
	"verif/internal/h"
	"verif/internal/model"
)

func init() { Registry["C19"] = C19 }

type cliRes struct {
	Stdout, Stderr string
	Status         int
}

func runCLIHere(cli, dir string, args []string, stdin string, stdinAsFile bool) cliRes {
	// a changed tree may make the executable spin for ever: every run is bounded
	ctx, cancel := context.WithTimeout(context.Background(), 30*time.Second)
	defer cancel()
	cmd := exec.CommandContext(ctx, cli, args...)
	cmd.Dir = dir
	if stdinAsFile {
		p := filepath.Join(dir, ".stdin")
		os.WriteFile(p, []byte(stdin), 0o644)
		f, _ := os.Open(p)
		defer f.Close()
		cmd.Stdin = f
	} else {
		cmd.Stdin = strings.NewReader(stdin)
	}
	var so, se strings.Builder
	cmd.Stdout, cmd.Stderr = &so, &se
	err := cmd.Run()
	st := 0
	if ee, ok := err.(*exec.ExitError); ok {
		st = ee.ExitCode()
	} else if err != nil {
		st = -1
	}
	if ctx.Err() != nil {
		return cliRes{so.String(), se.String() + "<the executable did not end within 30 s and was killed>", -2}
	}
	return cliRes{so.String(), se.String(), st}
}

func C19(c *fw.Ctx) {
	c.R.Rule = "command lines (0-3 arguments x 12 name shapes, missing file, directory) through the rewritten main package and the real executable; programs of every outcome class (clean / lexical / syntax / runtime error at start, middle, end; top level, block, function) with the status<->stream classification; programs with 0-3 ইনপুট calls (with/without prompt) x every stdin of 0-4 lines over a 4-line pool x trailing newline, under every read-chunking schedule within 2 deviations from both line-at-a-time and all-available delivery; distinct by (argv, stdin, schedule, text)"
	ran := model.KwPrint + " \"ran\";\n"
	fail := func(base fw.Replay, clause, exp, obs string) {
		r := base
		r.Sig = "C19|" + clause
		r.What = clause
		r.Expected, r.Observed = exp, obs
		c.Violate(r)
	}
	// ---- (1) command lines, in-process through main ----------------------
	names := []string{"missing.txt", "nosuch", "missing.bnx", "a.bn", "a.BN", "a.bnx", "a.txt", "a", "a.bn.txt", ".bn", "a.b.bn", "dir.bn/a", "sub/a.bn", "missing.bn", "a.Bn", "a.bn ", "bn", "a.bn/",
		// names an option parser would read as options or as the end of options
		"--", "-", "-dash.bn", "--dash.bn", "-x", "-version", "--version", "-h", "--help", "-.bn", "--.bn", "-=.bn", "-a=b.bn"}
	for _, name := range names {
		for extra := 0; extra <= 2; extra++ {
			if !c.Mine() {
				continue
			}
			args := []string{name}
			for i := 0; i < extra; i++ {
				args = append(args, fmt.Sprintf("x%d", i))
			}
			if extra == 1 && strings.HasPrefix(name, "a.b") {
				args = []string{"--", name} // an end-of-options marker is an argument like any other
			}
			files := map[string]string{}
			if !strings.HasPrefix(name, "missing") && name != "nosuch" {
				files[name] = ran
			}
			o := h.RunFile("", h.Opts{Args: args, Files: files})
			c.Eval(fmt.Sprint(args), true)
			c.R.States++
			base := fw.Replay{Mode: "args", Program: ran, Args: args, InStdout: o.Stdout, InStderr: o.Stderr, InStatus: o.Status}
			if abnormal(c, o, "args", ran, base) {
				continue
			}
			msg := o.Stdout + o.Stderr
			endsBn := strings.HasSuffix(name, ".bn")
			switch {
			case extra > 0:
				if o.Status != 64 || strings.TrimSpace(msg) == "" || strings.Contains(o.Stdout, "ran") {
					fail(base, "usage-extra-args", "status 64, a message, nothing executed", fmt.Sprintf("status %d stdout %q stderr %q", o.Status, o.Stdout, o.Stderr))
				}
			case !endsBn:
				if o.Status != 64 || strings.TrimSpace(msg) == "" || strings.Contains(o.Stdout, "ran") {
					fail(base, "usage-extension", "status 64, a message, nothing executed", fmt.Sprintf("name %q: status %d stdout %q stderr %q", name, o.Status, o.Stdout, o.Stderr))
				}
			case name == "missing.bn":
				if o.Status == 0 || strings.TrimSpace(msg) == "" || strings.Contains(o.Stdout, "ran") {
					fail(base, "unreadable", "non-zero status, a message, nothing executed", fmt.Sprintf("status %d stdout %q stderr %q", o.Status, o.Stdout, o.Stderr))
				}
			default:
				if o.Status != 0 || o.Stdout != "ran\n" || o.Stderr != "" {
					fail(base, "runs-script", "status 0, stdout ran, empty stderr", fmt.Sprintf("name %q: status %d stdout %q stderr %q", name, o.Status, o.Stdout, o.Stderr))
				}
			}
		}
	}
	// ---- (2) outcome classes ---------------------------------------------
	type fault struct {
		class string // clean lexical syntax runtime
		text  string
	}
	faults := []fault{
		{"clean", model.KwPrint + " \"fine\";"},
		{"lexical", "#"}, {"lexical", "\"open"}, {"lexical", "/* open"}, {"lexical", model.KwPrint + " 1" + strings.Repeat("0", 400) + ";"}, {"lexical", "a ? b;"},
		{"syntax", "1 +;"}, {"syntax", model.KwPrint + " ;"}, {"syntax", model.KwPrint + " 1"}, {"syntax", "(1;"}, {"syntax", model.KwVar + " " + model.BiLen + " = 1;"},
		{"syntax", "1 = 2;"}, {"syntax", model.KwElse + ";"}, {"syntax", "}"}, {"syntax", model.KwFun + " f( {}"},
		{"runtime", "zz;"}, {"runtime", "zz = 1;"}, {"runtime", model.KwPrint + " 1 / 0;"}, {"runtime", "nil + 1;"}, {"runtime", "[1][5];"}, {"runtime", "1(2);"},
		{"runtime", model.KwBreak + ";"}, {"runtime", model.KwReturn + " 1;"}, {"runtime", model.BiLen + "(1);"}, {"runtime", model.BiSqrt + "();"}, {"runtime", "({}).k;"},
		{"runtime", model.KwVar + " d = 1; " + model.KwVar + " d = 2;"},
	}
	wrapKinds := []string{"top", "block", "function", "if", "loop", "while-true", "for-bare"}
	for _, f := range faults {
		for pos := 0; pos < 3; pos++ {
			for _, wk := range wrapKinds {
				for second := 0; second < 2; second++ {
					if !c.Mine() {
						continue
					}
					body := f.text
					switch wk {
					case "block":
						body = "{\n" + f.text + "\n}"
					case "function":
						body = model.KwFun + " ff() {\n" + f.text + "\n}\nff();"
					case "if":
						body = model.KwIf + " (" + model.KwTrue + ") {\n" + f.text + "\n}"
					case "loop":
						body = model.KwFor + " (" + model.KwVar + " i = 0; i < 2; i = i + 1) {\n" + f.text + "\n}"
					case "while-true":
						body = model.KwWhile + " (" + model.KwTrue + ") {\n" + f.text + "\n" + model.KwBreak + ";\n}"
					case "for-bare":
						body = model.KwFun + " lf() {\n" + model.KwFor + " (;;) {\n" + f.text + "\n" + model.KwReturn + " 1;\n}\n}\nlf();"
					}
					if (f.text == model.KwBreak+";" || strings.HasPrefix(f.text, model.KwReturn)) && (wk == "function" || wk == "loop" || wk == "while-true" || wk == "for-bare") {
						continue // not stray there (break/continue crossing a function boundary is unspecified)
					}
					if f.class == "lexical" && (strings.HasPrefix(f.text, "\"open") || strings.HasPrefix(f.text, "/*")) && wk != "top" {
						continue // swallows the wrapper: class unchanged but nothing new
					}
					var lines []string
					for i := 0; i < 3; i++ {
						if i == pos {
							lines = append(lines, body)
						}
						lines = append(lines, fmt.Sprintf("%s \"p%d\";", model.KwPrint, i))
					}
					if second == 1 {
						// a later runtime fault must not change a 65 into a 70, nor add output
						lines = append(lines, "qq;")
					}
					src := strings.Join(lines, "\n") + "\n"
					o := h.RunFile(src, h.Opts{})
					c.Eval(src, true)
					c.R.States++
					base := fw.Replay{Mode: "file", Program: src, CLI: true, InStdout: o.Stdout, InStderr: o.Stderr, InStatus: o.Status}
					if abnormal(c, o, "file", src, base) {
						continue
					}
					class := f.class
					if class == "clean" && second == 1 {
						class = "runtime-late"
					}
					c.Outcome(fmt.Sprint(o.Status))
					switch class {
					case "clean":
						if o.Status != 0 || o.Stderr != "" {
							fail(base, "class-clean", "status 0, empty stderr", fmt.Sprintf("status %d stderr %q", o.Status, trunc(o.Stderr, 120)))
						}
						if wk != "loop" && o.Stdout != expectedPrints(pos, 3, "fine\n") {
							fail(base, "class-clean-stdout", expectedPrints(pos, 3, "fine\n"), o.Stdout)
						}
					case "lexical", "syntax":
						if o.Status != 65 || o.Stderr == "" || o.Stdout != "" {
							fail(base, "class-"+class, "status 65, a diagnostic, empty stdout", fmt.Sprintf("status %d stdout %q stderr %q", o.Status, trunc(o.Stdout, 80), trunc(o.Stderr, 120)))
						}
					case "runtime":
						if o.Status != 70 || o.Stderr == "" {
							fail(base, "class-runtime", "status 70, a diagnostic", fmt.Sprintf("status %d stdout %q stderr %q", o.Status, trunc(o.Stdout, 80), trunc(o.Stderr, 120)))
						}
						if o.Stdout != expectedPrints(pos, pos, "") {
							fail(base, "class-runtime-stdout", expectedPrints(pos, pos, ""), o.Stdout)
						}
					case "runtime-late":
						if o.Status != 70 || o.Stderr == "" {
							fail(base, "class-runtime", "status 70, a diagnostic", fmt.Sprintf("status %d stderr %q", o.Status, trunc(o.Stderr, 120)))
						}
					}
					if strings.Contains(o.Stdout, "Error") || strings.Contains(o.Stdout, "[line") {
						fail(base, "diagnostic-on-stdout", "diagnostics only on stderr", o.Stdout)
					}
				}
			}
		}
	}
	// ---- (3) ইনপুট under read-chunking schedules -------------------------
	pool := []string{"abc", " pad ", "", "১২"}
	var stdins [][]string
	var gen func(cur []string)
	maxLines := 3
	if !c.Quick() {
		maxLines = 4
	}
	gen = func(cur []string) {
		stdins = append(stdins, append([]string{}, cur...))
		if len(cur) == maxLines {
			return
		}
		for _, p := range pool {
			gen(append(cur, p))
		}
	}
	gen(nil)
	c.Bound("stdin_max_lines", maxLines)
	c.Bound("stdin_contents", len(stdins))
	devBound := 2
	for k := 0; k <= 3; k++ {
		// pm: which calls carry a prompt; nm: which calls use the Latin name of the built-in
		for pmnm := 0; pmnm < 1<<(2*k); pmnm++ {
			pm, nm := pmnm&(1<<k-1), pmnm>>k
			var prog []*model.N
			for i := 0; i < k; i++ {
				var call *model.N
				name := model.BiInput
				if nm&(1<<i) != 0 {
					name = model.BiInputLatin
				}
				if pm&(1<<i) != 0 {
					call = model.CallN(name, model.Str(fmt.Sprintf("P%d>", i)))
				} else {
					call = model.CallN(name)
				}
				v := fmt.Sprintf("v%d", i)
				prog = append(prog, model.Var(v, call), model.Print(model.Bin("+", model.Bin("+", model.Str("<"), model.Id(v)), model.Str(">"))))
			}
			prog = append(prog, T("done"))
			prog = parenAll(prog)
			src := model.Render(prog)
			for _, lines := range stdins {
				for tail := 0; tail < 2; tail++ {
					if !c.Mine() {
						continue
					}
					stdin := strings.Join(lines, "\n")
					complete := len(lines)
					if tail == 0 {
						if len(lines) > 0 {
							stdin += "\n"
						}
					} else {
						if len(lines) == 0 {
							continue
						}
						complete = len(lines) - 1 // unterminated last line
					}
					if k > complete {
						c.Skip("ইনপুট beyond the last complete line (unspecified)")
						continue
					}
					m := &model.Machine{Stdin: lines[:complete]}
					res := m.Run(prog)
					if res.Unspec != "" || res.Err != nil {
						c.Skip("unspecified: " + res.Unspec)
						continue
					}
					// explicit exploration: every Read is a 3-way choice; deviations counted from each default delivery
					for _, mode := range []int{0, 1} {
						exploreReads(c, src, stdin, mode, devBound, func(sched []int, o h.Outcome) {
							c.Eval(fmt.Sprint(mode, sched)+stdin+"\x00"+src, true)
							c.R.States++
							base := fw.Replay{Mode: "file", Program: src, Stdin: stdin, Choices: sched, StdinSch: true, CLI: len(sched) == 0 || allEq(sched, 1), InStdout: o.Stdout, InStderr: o.Stderr, InStatus: o.Status}
							if abnormal(c, o, "file", src, base) {
								return
							}
							c.Outcome(o.Stdout)
							if o.Stdout != res.Stdout() || o.Stderr != "" || o.Status != 0 {
								r := base
								r.Sig = fmt.Sprintf("C19|input-lines|calls=%d", k)
								if k >= 2 {
									r.Sig = "C19|input-lines|calls>=2"
								}
								r.What = "the i-th ইনপুট call must return the i-th line of stdin, trimmed, however stdin is delivered"
								r.Expected = res.Stdout()
								r.Observed = fmt.Sprintf("stdout %q stderr %q status %d (read sizes schedule %v, default mode %d)", o.Stdout, trunc(o.Stderr, 100), o.Status, sched, mode)
								c.Violate(r)
							}
						})
					}
				}
			}
		}
	}
	// ---- (3b) input lines of every size: a line of n characters (n across every power of two from 2^8 to
	// 2^17, ASCII and Bangla) is returned whole, and the next call gets the next line; under line-wise and
	// all-at-once delivery
	{
		for _, unit := range []string{"x", "\u0995"} {
			for k := 8; k <= 17; k++ {
				for d := -1; d <= 1; d++ {
					for mode := 0; mode < 2; mode++ {
						if !c.Mine() {
							continue
						}
						n := 1<<uint(k) + d
						line := strings.Repeat(unit, n)
						src := model.KwVar + " s = " + model.BiInput + "();\n" + model.KwPrint + " s == \"" + line + "\";\n" + model.KwPrint + " " + model.BiInputLatin + "();\n" + model.KwPrint + " \"end\";\n"
						stdin := line + "\ntail\n"
						o := h.RunFile(src, h.Opts{Stdin: stdin, StdinMode: mode, Fuel: int64(2_000_000 + 200*len(src))})
						c.Eval(fmt.Sprint(mode)+src, true)
						c.R.States++
						base := fw.Replay{Mode: "file", Program: trunc(src, 400), Stdin: trunc(stdin, 200), CLI: false, InStdout: o.Stdout, InStderr: trunc(o.Stderr, 300), InStatus: o.Status}
						if abnormal(c, o, "file", trunc(src, 200), base) {
							continue
						}
						c.Outcome(o.Stdout)
						if o.Stdout != "true\ntail\nend\n" || o.Status != 0 || o.Stderr != "" {
							r := base
							r.Sig = "C19|input-lines|long-line"
							r.What = fmt.Sprintf("an input line of %d characters must be returned whole and the next call must get the next line", n)
							r.Expected = "stdout \"true\\ntail\\nend\\n\" status 0, empty stderr"
							r.Observed = fmt.Sprintf("stdout %q status %d stderr %q (delivery mode %d)", trunc(o.Stdout, 100), o.Status, trunc(o.Stderr, 200), mode)
							c.Violate(r)
						}
					}
				}
			}
		}
	}
	// ---- (3d) how the text ends: a clean program followed by every ending of a pool (nothing, blanks, line
	// ends of three kinds, comments of both kinds with and without a final line end): status 0, the
	// output, empty stderr
	{
		endings := []string{"", "\n", " ", "\t", "\r\n", "\r", "\n\n", "//c", "//c\n", "//", "/*c*/", "/*c*/\n", "/**/", "/* a\n b */", "/***/", " /* c */ ", "// /* c", "/*c*/ //d", "/* // */"}
		for _, body := range []string{model.KwPrint + " \"ok\";", model.KwVar + " v = 1; " + model.KwPrint + " \"ok\";", "{ " + model.KwPrint + " \"ok\"; }"} {
			for _, e := range endings {
				for _, sep := range []string{"", "\n"} {
					if !c.Mine() {
						continue
					}
					src := body + sep + e
					o := h.RunFile(src, h.Opts{})
					c.Eval(src, true)
					c.R.States++
					base := fw.Replay{Mode: "file", Program: src, CLI: true, InStdout: o.Stdout, InStderr: o.Stderr, InStatus: o.Status}
					if abnormal(c, o, "file", src, base) {
						continue
					}
					if o.Stdout != "ok\n" || o.Status != 0 || o.Stderr != "" {
						r := base
						r.Sig = "C19|clean-program|ending"
						r.What = "a clean program must exit 0 with empty stderr however its text ends"
						r.Expected = "stdout \"ok\\n\" status 0, empty stderr"
						r.Observed = fmt.Sprintf("ending %q: stdout %q status %d stderr %q", e, o.Stdout, o.Status, trunc(o.Stderr, 200))
						c.Violate(r)
					}
				}
			}
		}
	}
	// ---- (3e) texts are data: every printable ASCII character (and a few others) inside a text, alone
	// and next to digits, as either operand of every arithmetic and comparison operator with a number, as
	// an argument of the numeric built-ins and as a line read from stdin: whatever the text holds, a
	// derivable program ends with 0 or -- when the operation is a reported runtime error -- 70, never
	// with a lexical or syntax diagnostic
	{
		var chars []string
		for r := rune(0x20); r <= 0x7e; r++ {
			if r != '"' {
				chars = append(chars, string(r))
			}
		}
		chars = append(chars, "\t", "\u09f3", "\u00e9", "\u200c", "/*", "//", "*/")
		shapes := []func(ch string) string{
			func(ch string) string { return ch },
			func(ch string) string { return "1" + ch },
			func(ch string) string { return ch + "1" },
			func(ch string) string { return "1 " + ch + " 2" },
		}
		ops := []string{"+", "-", "*", "<", "==", "&"}
		for _, ch := range chars {
			for si, shape := range shapes {
				if !c.Mine() {
					continue
				}
				text := shape(ch)
				for _, op := range ops {
					for side := 0; side < 2; side++ {
						l, r := model.Num(3), model.Str(text)
						if side == 1 {
							l, r = r, l
						}
						prog := []*model.N{T("before"), model.Print(model.Bin(op, l, r)), T("after")}
						judge(c, prog, judgeOpts{SigPrefix: fmt.Sprintf("text-is-data|operator|shape%d", si), NoKind: true})
					}
				}
				for _, b := range []string{model.BiAbs, model.BiMax, model.BiRound} {
					prog := []*model.N{T("before"), model.Print(model.CallN(b, model.Str(text))), T("after")}
					judge(c, prog, judgeOpts{SigPrefix: fmt.Sprintf("text-is-data|built-in|shape%d", si), NoKind: true})
				}
				if !strings.ContainsAny(text, "\r\n") && strings.TrimSpace(text) == text {
					prog := []*model.N{model.Var("t", model.CallN(model.BiInput)), model.Print(model.Bin("+", model.Num(3), model.Id("t"))), model.Print(model.Bin("+", model.Id("t"), model.Num(3))), T("after")}
					judge(c, prog, judgeOpts{SigPrefix: fmt.Sprintf("text-is-data|input|shape%d", si), Stdin: text + "\n", Lines: []string{text}, NoKind: true, NoPrompt: true, NoTwice: true})
				}
			}
		}
	}
	// ---- (3f) how the text begins, and tiny texts: every text of one or two printable ASCII characters,
	// and every triple over 21 token-boundary characters, as a whole script (with and without a final line
	// end) and as the first line before a clean program: the run is classified (0 / 65 / 70), never
	// anything else, and 65 comes with a diagnostic and no output of the program
	{
		var all []string
		for r := rune(0x20); r <= 0x7e; r++ {
			all = append(all, string(r))
		}
		special := []string{"\"", "\\", "/", "*", "1", ".", "a", " ", "\t", "\r", "#", "!", "(", "{", ";", "=", "&", "-", "\u09e7", "\u0995", "\ufeff"}
		var texts []string
		for _, a := range all {
			texts = append(texts, a)
			for _, b := range all {
				texts = append(texts, a+b)
			}
		}
		for _, a := range special {
			for _, b := range special {
				for _, d := range special {
					texts = append(texts, a+b+d)
				}
			}
		}
		clean := model.KwPrint + " \"ok\";\n"
		for _, t := range texts {
			if !c.Mine() {
				continue
			}
			for variant, src := range []string{t, t + "\n", t + "\n" + clean} {
				o := h.RunFile(src, h.Opts{Fuel: 400000})
				c.Eval(src, true)
				c.R.States++
				base := fw.Replay{Mode: "file", Program: src, CLI: true, InStdout: o.Stdout, InStderr: o.Stderr, InStatus: o.Status}
				if abnormal(c, o, "file", src, base) {
					continue
				}
				c.Outcome(fmt.Sprint(o.Status))
				bad := ""
				switch {
				case o.Status != 0 && o.Status != 65 && o.Status != 70:
					bad = "status is none of 0 / 65 / 70"
				case o.Status == 65 && (o.Stdout != "" || o.Stderr == ""):
					bad = "status 65 with output of the program or without a diagnostic"
				case o.Status == 0 && o.Stderr != "":
					bad = "status 0 with a diagnostic"
				case o.Status == 70 && o.Stderr == "":
					bad = "status 70 without a diagnostic"
				}
				if bad != "" {
					r := base
					r.Sig = fmt.Sprintf("C19|classification|tiny-text|variant%d", variant)
					r.What = "a tiny text (or a tiny first line before a clean program) is not classified: " + bad
					r.Expected = "0 with empty stderr, 65 with a diagnostic and no output, or 70 with a diagnostic"
					r.Observed = fmt.Sprintf("stdout %q status %d stderr %q", trunc(o.Stdout, 100), o.Status, trunc(o.Stderr, 200))
					c.Violate(r)
				}
			}
		}
	}
	// ---- (3c) calls with n arguments (n across every power of two up to 2^11, and 250..260): a program
	// that is derivable and valid runs, prints and exits 0; the same call in a function that is never called
	{
		var ns []int
		for k := 0; k <= 11; k++ {
			ns = append(ns, 1<<uint(k)-1, 1<<uint(k), 1<<uint(k)+1)
		}
		for n := 250; n <= 260; n++ {
			ns = append(ns, n)
		}
		for _, n := range ns {
			if n < 1 {
				continue
			}
			for variant := 0; variant < 3; variant++ {
				if !c.Mine() {
					continue
				}
				var args []string
				for i := 1; i <= n; i++ {
					args = append(args, fmt.Sprint(i))
				}
				call := model.BiMax + "(" + strings.Join(args, ", ") + ")"
				want := fmt.Sprintf("start\n%d\nend\n", n)
				var src string
				switch variant {
				case 0:
					src = model.KwPrint + " \"start\";\n" + model.KwPrint + " " + call + ";\n" + model.KwPrint + " \"end\";\n"
				case 1:
					src = model.KwPrint + " \"start\";\n" + model.KwFun + " never() { " + model.KwReturn + " " + call + "; }\n" + model.KwPrint + " " + fmt.Sprint(n) + ";\n" + model.KwPrint + " \"end\";\n"
				case 2:
					src = model.KwPrint + " \"start\";\n" + model.KwPrint + " " + model.BiLen + "(" + model.BiAppend + "([], " + strings.Join(args, ", ") + "));\n" + model.KwPrint + " \"end\";\n"
				}
				o := h.RunFile(src, h.Opts{Fuel: int64(2_000_000 + 400*len(src))})
				c.Eval(src, true)
				c.R.States++
				base := fw.Replay{Mode: "file", Program: trunc(src, 300), CLI: true, InStdout: o.Stdout, InStderr: trunc(o.Stderr, 300), InStatus: o.Status}
				if abnormal(c, o, "file", trunc(src, 200), base) {
					continue
				}
				c.Outcome(o.Stdout)
				if o.Stdout != want || o.Status != 0 || o.Stderr != "" {
					r := base
					r.Sig = fmt.Sprintf("C19|clean-program|call-with-many-arguments|variant%d", variant)
					r.What = fmt.Sprintf("a valid program with a call of %d arguments must run, print and exit 0", n)
					r.Expected = fmt.Sprintf("stdout %q status 0, empty stderr", want)
					r.Observed = fmt.Sprintf("stdout %q status %d stderr %q", trunc(o.Stdout, 100), o.Status, trunc(o.Stderr, 200))
					c.Violate(r)
				}
			}
		}
	}
	// ---- (4) the real executable ----------------------------------------
	if cli := os.Getenv("VERIF_CLI"); cli != "" && c.Shard == 0 {
		dir, _ := os.MkdirTemp(os.Getenv("VERIF_SCRATCH"), "c19.")
		defer os.RemoveAll(dir)
		os.MkdirAll(filepath.Join(dir, "d.bn"), 0o755)
		os.MkdirAll(filepath.Join(dir, "d.txt"), 0o755)
		os.MkdirAll(filepath.Join(dir, "sub"), 0o755)
		os.MkdirAll(filepath.Join(dir, "dir.bn"), 0o755)
		for _, n := range []string{"a.bn", "a.BN", "a.bnx", "a.txt", "a", "a.bn.txt", ".bn", "a.b.bn", "dir.bn/a", "sub/a.bn"} {
			os.WriteFile(filepath.Join(dir, n), []byte(ran), 0o644)
		}
		type ccase struct {
			args  []string
			want  string // "run" "64" "nonzero"
			stdin string
		}
		cases := []ccase{
			{[]string{"a.bn"}, "run", ""}, {[]string{".bn"}, "run", ""}, {[]string{"a.b.bn"}, "run", ""}, {[]string{"sub/a.bn"}, "run", ""}, {[]string{"./a.bn"}, "run", ""},
			{[]string{"a.BN"}, "64", ""}, {[]string{"a.bnx"}, "64", ""}, {[]string{"a.txt"}, "64", ""}, {[]string{"a"}, "64", ""}, {[]string{"a.bn.txt"}, "64", ""}, {[]string{"dir.bn/a"}, "64", ""},
			{[]string{"a.bn", "x"}, "64", ""}, {[]string{"a.bn", "x", "y"}, "64", ""}, {[]string{"a.txt", "a.bn"}, "64", ""}, {[]string{"missing.txt"}, "64", ""}, {[]string{"nosuch"}, "64", ""}, {[]string{"d.txt"}, "64", ""}, {[]string{"nodir/a.txt"}, "64", ""},
			{[]string{"missing.bn"}, "nonzero", ""}, {[]string{"d.bn"}, "nonzero", ""}, {[]string{"nodir/a.bn"}, "nonzero", ""},
		}
		for _, cs := range cases {
			r := runCLIHere(cli, dir, cs.args, cs.stdin, false)
			c.Eval("cli"+fmt.Sprint(cs.args), true)
			c.Count("cli_runs")
			base := fw.Replay{Mode: "args", Program: ran, Args: cs.args, CLI: false, InStdout: r.Stdout, InStderr: r.Stderr, InStatus: r.Status}
			msg := strings.TrimSpace(r.Stdout + r.Stderr)
			ok := true
			switch cs.want {
			case "run":
				ok = r.Status == 0 && r.Stdout == "ran\n" && r.Stderr == ""
			case "64":
				ok = r.Status == 64 && msg != "" && !strings.Contains(r.Stdout, "ran")
			case "nonzero":
				ok = r.Status != 0 && r.Status != 2 && msg != "" && !strings.Contains(r.Stdout, "ran") && !strings.Contains(r.Stderr, "goroutine")
			}
			if !ok {
				fail(base, "cli-argv|"+cs.want, cs.want, fmt.Sprintf("args %v: status %d stdout %q stderr %q", cs.args, r.Status, r.Stdout, r.Stderr))
			}
		}
		// status classes and stdin as pipe / file through the executable
		progs := []struct {
			src, stdin, wantOut string
			status              int
		}{
			{model.KwPrint + " 1;\n", "", "1\n", 0},
			{model.KwPrint + " 1;\n#\n", "", "", 65},
			{model.KwPrint + " 1;\n1 +;\n", "", "", 65},
			{model.KwPrint + " 1;\nzz;\n" + model.KwPrint + " 2;\n", "", "1\n", 70},
			{model.KwVar + " a = " + model.BiInput + "(\"P>\");\n" + model.KwVar + " b = " + model.BiInput + "();\n" + model.KwVar + " cc = " + model.BiInput + "(\"Q>\");\n" + model.KwPrint + " \"<\" + a + \"|\" + b + \"|\" + cc + \">\";\n", " one \ntwo\n\tthree\t\nfour\n", "P>Q><one|two|three>\n", 0},
			{model.KwVar + " a = " + model.BiInput + "();\n" + model.KwPrint + " \"<\" + a + \">\";\n", "only\n", "<only>\n", 0},
		}
		for _, p := range progs {
			os.WriteFile(filepath.Join(dir, "p.bn"), []byte(p.src), 0o644)
			for _, asFile := range []bool{false, true} {
				r := runCLIHere(cli, dir, []string{"p.bn"}, p.stdin, asFile)
				c.Eval(fmt.Sprint("cli", asFile)+p.src, true)
				c.Count("cli_runs")
				base := fw.Replay{Mode: "file", Program: p.src, Stdin: p.stdin, CLI: true, InStdout: r.Stdout, InStderr: r.Stderr, InStatus: r.Status}
				if r.Status != p.status || r.Stdout != p.wantOut || (p.status == 0) != (r.Stderr == "") {
					sig := "cli-class"
					if strings.Contains(p.src, model.BiInput) {
						sig = "input-lines|calls>=2"
						if p.stdin == "only\n" {
							sig = "input-lines|calls=1"
						}
					}
					fail(base, sig, fmt.Sprintf("status %d stdout %q", p.status, p.wantOut), fmt.Sprintf("stdin as file=%v: status %d stdout %q stderr %q", asFile, r.Status, r.Stdout, trunc(r.Stderr, 150)))
				}
			}
		}
	}
	c.R.Transitions = c.R.States
	c.R.Traces = c.R.States
	c.Sample(map[string]interface{}{"program": "two ইনপুট calls", "stdin": "abc\\n pad \\n", "schedule": "read sizes [all-available, 1 byte, ...]"})
}

func allEq(s []int, v int) bool {
	for _, x := range s {
		if x != v {
			return false
		}
	}
	return true
}

// expectedPrints: p0..p(upto-1) with `extra` inserted before p(pos).
func expectedPrints(pos, upto int, extra string) string {
	var sb strings.Builder
	for i := 0; i < 3; i++ {
		if i == pos {
			sb.WriteString(extra)
		}
		if i < upto {
			fmt.Fprintf(&sb, "p%d\n", i)
		}
	}
	return sb.String()
}

// exploreReads explores read-size schedules: each Read call on stdin is a
// choice among {to the next newline, all available, one byte}; the default
// answer is `mode`, and at most `bound` reads deviate from it.
func exploreReads(c *fw.Ctx, src, stdin string, mode, bound int, visit func(sched []int, o h.Outcome)) {
	var rec func(sched []int, dev int)
	rec = func(sched []int, dev int) {
		// build the full prefix: recorded answers, default beyond
		o := h.RunFile(src, h.Opts{Stdin: stdin, StdinSchedule: true, StdinMode: mode, Prefix: sched, Fuel: 400000})
		// the run answers 0 beyond the prefix; translate: answer index a means mode (mode+a)%3
		visit(append([]int{}, sched...), o)
		if dev >= bound {
			return
		}
		for i := len(sched); i < len(o.Points); i++ {
			if o.Points[i].Kind != "read" {
				continue
			}
			for alt := 1; alt < 3; alt++ {
				np := make([]int, i+1)
				copy(np, sched)
				np[i] = alt
				rec(np, dev+1)
			}
		}
	}
	rec(nil, 0)
}

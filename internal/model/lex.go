package model

import (
	"math"
	"math/big"
	"strings"
	"unicode"
)

// Tok is a model token.
type Tok struct {
	Kind   string
	Lexeme string
	Num    float64 // NUMBER
	Str    string  // STRING: text between the quotes
	Line   int
	Start  int // rune offset of the first character
	End    int // rune offset one past the last character
}

// LexError is one lexical error event.
type LexError struct {
	Kind string // stray | unterminated-string | unterminated-comment | number-range
	Line int    // line at which the model would place it (advisory)
	Pos  int
}

var ops2 = map[string]string{
	"**": "POWER", "!=": "BANG_EQUAL", "==": "EQUAL_EQUAL", "<=": "LESS_EQUAL", "<<": "LEFT_SHIFT",
	">=": "GREATER_EQUAL", ">>": "RIGHT_SHIFT", "&&": "LOGICAL_AND", "||": "LOGICAL_OR",
}
var ops1 = map[rune]string{
	'(': "LEFT_PAREN", ')': "RIGHT_PAREN", '{': "LEFT_BRACE", '}': "RIGHT_BRACE", '[': "LEFT_BRACKET",
	']': "RIGHT_BRACKET", ',': "COMMA", '.': "DOT", '-': "MINUS", '+': "PLUS", ';': "SEMICOLON", ':': "COLON",
	'/': "SLASH", '*': "STAR", '^': "XOR", '~': "NOT", '%': "MODULO", '!': "BANG", '=': "EQUAL", '<': "LESS",
	'>': "GREATER", '&': "AND", '|': "OR",
}

func isDigitR(r rune) bool { return (r >= '0' && r <= '9') || (r >= 0x09E6 && r <= 0x09EF) }
func isIdStart(r rune) bool {
	return unicode.IsLetter(r) || unicode.IsMark(r) || r == '_'
}
func isIdPart(r rune) bool { return isIdStart(r) || isDigitR(r) }

// DigitValue returns 0..9 for an ASCII or Bangla digit.
func DigitValue(r rune) int {
	if r >= '0' && r <= '9' {
		return int(r - '0')
	}
	return int(r - 0x09E6)
}

// LiteralValue is the nearest-even double of an exact decimal literal written
// in either digit script; ok=false when that would be infinite.
func LiteralValue(lex string) (float64, bool) {
	var sb strings.Builder
	for _, r := range lex {
		if r == '.' {
			sb.WriteByte('.')
		} else {
			sb.WriteByte(byte('0' + DigitValue(r)))
		}
	}
	rat, ok := new(big.Rat).SetString(sb.String())
	if !ok {
		return 0, false
	}
	f, _ := rat.Float64()
	if math.IsInf(f, 0) {
		return f, false
	}
	return f, true
}

// Lex is the model lexer: longest match, skip blanks and comments.
func Lex(src string) ([]Tok, []LexError) {
	rs := []rune(src)
	n := len(rs)
	line := 1
	var toks []Tok
	var errs []LexError
	i := 0
	emit := func(kind string, a, b int, ln int) *Tok {
		toks = append(toks, Tok{Kind: kind, Lexeme: string(rs[a:b]), Line: ln, Start: a, End: b})
		return &toks[len(toks)-1]
	}
	for i < n {
		c := rs[i]
		switch {
		case c == '\n':
			line++
			i++
		case c == ' ' || c == '\t' || c == '\r':
			i++
		case c == '/' && i+1 < n && rs[i+1] == '/':
			for i < n && rs[i] != '\n' {
				i++
			}
		case c == '/' && i+1 < n && rs[i+1] == '*':
			j := i + 2
			closed := false
			for j < n {
				if rs[j] == '*' && j+1 < n && rs[j+1] == '/' {
					closed = true
					j += 2
					break
				}
				if rs[j] == '\n' {
					line++
				}
				j++
			}
			if !closed {
				errs = append(errs, LexError{"unterminated-comment", line, i})
			}
			i = j
		case c == '"':
			j := i + 1
			ln := line
			for j < n && rs[j] != '"' {
				if rs[j] == '\n' {
					ln++
				}
				j++
			}
			if j >= n {
				errs = append(errs, LexError{"unterminated-string", ln, i})
				line = ln
				i = n
				break
			}
			t := emit("STRING", i, j+1, ln)
			t.Str = string(rs[i+1 : j])
			line = ln
			i = j + 1
		case isDigitR(c):
			j := i
			for j < n && isDigitR(rs[j]) {
				j++
			}
			if j+1 < n && rs[j] == '.' && isDigitR(rs[j+1]) {
				j++
				for j < n && isDigitR(rs[j]) {
					j++
				}
			}
			v, ok := LiteralValue(string(rs[i:j]))
			if !ok {
				errs = append(errs, LexError{"number-range", line, i})
			} else {
				t := emit("NUMBER", i, j, line)
				t.Num = v
			}
			i = j
		case isIdStart(c):
			j := i
			for j < n && isIdPart(rs[j]) {
				j++
			}
			w := string(rs[i:j])
			if k, ok := Keywords[w]; ok {
				emit(k, i, j, line)
			} else {
				emit("IDENTIFIER", i, j, line)
			}
			i = j
		default:
			if i+1 < n {
				if k, ok := ops2[string(rs[i:i+2])]; ok {
					emit(k, i, i+2, line)
					i += 2
					continue
				}
			}
			if k, ok := ops1[c]; ok {
				emit(k, i, i+1, line)
				i++
				continue
			}
			errs = append(errs, LexError{"stray", line, i})
			i++
		}
	}
	toks = append(toks, Tok{Kind: "EOF", Lexeme: "", Line: line, Start: n, End: n})
	return toks, errs
}

// ToASCII rewrites the Bangla digits of a numeric lexeme as ASCII digits.
func ToASCII(lex string) string {
	var sb strings.Builder
	for _, r := range lex {
		if r >= 0x09E6 && r <= 0x09EF {
			sb.WriteByte(byte('0' + r - 0x09E6))
		} else {
			sb.WriteRune(r)
		}
	}
	return sb.String()
}

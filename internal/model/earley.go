package model

// Earley is an incremental Earley recogniser: the chart columns form a stack
// so that a depth-first walk over token sequences pays one step per token.
type Earley struct {
	G    *Grammar
	cols []*eCol
}

type eItem struct {
	rule   int32
	dot    int32
	origin int32
}

type eCol struct {
	items   []eItem
	seen    map[uint64]struct{}
	waiting map[int32][]int32 // nonterminal -> indexes of items with the dot before it
}

func (c *eCol) add(it eItem) bool {
	k := uint64(it.rule)<<40 | uint64(it.dot)<<32 | uint64(uint32(it.origin))
	if _, ok := c.seen[k]; ok {
		return false
	}
	c.seen[k] = struct{}{}
	c.items = append(c.items, it)
	return true
}

func NewEarley(g *Grammar) *Earley {
	e := &Earley{G: g}
	c := &eCol{seen: map[uint64]struct{}{}, waiting: map[int32][]int32{}}
	for _, r := range g.ByLHS[g.Start] {
		c.add(eItem{int32(r), 0, 0})
	}
	e.cols = []*eCol{c}
	e.closure(0)
	return e
}

func (e *Earley) closure(k int) {
	g := e.G
	c := e.cols[k]
	for i := 0; i < len(c.items); i++ {
		it := c.items[i]
		rhs := g.Rules[it.rule].RHS
		if int(it.dot) < len(rhs) {
			s := rhs[it.dot]
			if s.IsT {
				continue
			}
			c.waiting[int32(s.ID)] = append(c.waiting[int32(s.ID)], int32(i))
			for _, r := range g.ByLHS[s.ID] {
				c.add(eItem{int32(r), 0, int32(k)})
			}
			if g.Nullable[s.ID] {
				c.add(eItem{it.rule, it.dot + 1, it.origin})
			}
			continue
		}
		// completion
		lhs := int32(g.Rules[it.rule].LHS)
		oc := e.cols[it.origin]
		// note: when origin == k the waiting list may still grow; nullable
		// completions are covered by the nullable advance above
		for _, wi := range oc.waiting[lhs] {
			w := oc.items[wi]
			c.add(eItem{w.rule, w.dot + 1, w.origin})
		}
	}
}

// Depth is the number of tokens scanned.
func (e *Earley) Depth() int { return len(e.cols) - 1 }

// Push scans terminal t (index into G.Terms); it returns false, leaving the
// stack unchanged, when no item can scan it (the prefix + t is dead).
func (e *Earley) Push(t int) bool {
	g := e.G
	k := len(e.cols) - 1
	cur := e.cols[k]
	var nc *eCol
	for _, it := range cur.items {
		rhs := g.Rules[it.rule].RHS
		if int(it.dot) < len(rhs) && rhs[it.dot].IsT && rhs[it.dot].ID == t {
			if nc == nil {
				nc = &eCol{seen: map[uint64]struct{}{}, waiting: map[int32][]int32{}}
			}
			nc.add(eItem{it.rule, it.dot + 1, it.origin})
		}
	}
	if nc == nil {
		return false
	}
	e.cols = append(e.cols, nc)
	e.closure(k + 1)
	return true
}

func (e *Earley) Pop() { e.cols = e.cols[:len(e.cols)-1] }

// CanScan reports whether terminal t may follow the current prefix.
func (e *Earley) CanScan(t int) bool {
	g := e.G
	for _, it := range e.cols[len(e.cols)-1].items {
		rhs := g.Rules[it.rule].RHS
		if int(it.dot) < len(rhs) && rhs[it.dot].IsT && rhs[it.dot].ID == t {
			return true
		}
	}
	return false
}

// Complete reports whether the start symbol spans the whole prefix (call
// after pushing EOF).
func (e *Earley) Complete() bool {
	g := e.G
	for _, it := range e.cols[len(e.cols)-1].items {
		if it.origin == 0 && g.Rules[it.rule].LHS == g.Start && int(it.dot) == len(g.Rules[it.rule].RHS) {
			return true
		}
	}
	return false
}

// Accepts: the current prefix followed by EOF is a program.
func (e *Earley) Accepts() bool {
	eof := e.G.TermIndex("EOF")
	if !e.Push(eof) {
		return false
	}
	ok := e.Complete()
	e.Pop()
	return ok
}

// Recognize classifies a whole kind sequence (without EOF): it returns
// accepted, or the index of the first dead token (len(kinds) when the
// sequence is viable but incomplete).
func Recognize(g *Grammar, kinds []string) (accepted bool, dead int) {
	e := NewEarley(g)
	for i, k := range kinds {
		t := g.TermIndex(k)
		if t < 0 || !e.Push(t) {
			return false, i
		}
	}
	if e.Accepts() {
		return true, -1
	}
	return false, len(kinds)
}

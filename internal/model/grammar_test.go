package model

import (
	"os"
	"testing"
)

func TestGrammar(t *testing.T) {
	b, err := os.ReadFile("/repo/grammer.txt")
	if err != nil {
		t.Skip(err)
	}
	g, err := BuildGrammar(string(b), false)
	if err != nil {
		t.Fatal(err)
	}
	t.Logf("rules %d nonterminals %d terminals %d %v", len(g.Rules), len(g.Names), len(g.Terms), g.Terms)
	lad, err := LadderFromGrammar(string(b))
	t.Log(lad, err)
	cases := []struct {
		k    []string
		acc  bool
		dead int
	}{
		{[]string{"PRINT", "NUMBER", "PLUS", "NUMBER", "SEMICOLON"}, true, -1},
		{[]string{"PRINT", "NUMBER", "PLUS", "SEMICOLON"}, false, 3},
		{[]string{"VAR", "IDENT", "EQUAL", "NUMBER"}, false, 4},
		{[]string{"VAR", "RIDENT", "SEMICOLON"}, false, 1},
		{[]string{"LEFT_BRACE", "IDENT", "COLON", "NUMBER", "RIGHT_BRACE", "SEMICOLON"}, false, 2},
		{[]string{"LEFT_PAREN", "LEFT_BRACE", "IDENT", "COLON", "NUMBER", "RIGHT_BRACE", "RIGHT_PAREN", "SEMICOLON"}, true, -1},
		{[]string{"IDENT", "PLUS", "IDENT", "EQUAL", "NUMBER", "SEMICOLON"}, false, 3},
		{[]string{"IDENT", "DOT", "IDENT", "LEFT_BRACKET", "NUMBER", "RIGHT_BRACKET", "EQUAL", "NUMBER", "SEMICOLON"}, true, -1},
		{[]string{"IDENT", "LEFT_PAREN", "RIGHT_PAREN", "EQUAL", "NUMBER", "SEMICOLON"}, false, 3},
		{[]string{"FOR", "LEFT_PAREN", "LEFT_BRACE", "RIGHT_BRACE", "SEMICOLON", "SEMICOLON", "RIGHT_PAREN", "SEMICOLON"}, false, 7},
		{[]string{"IF", "LEFT_PAREN", "TRUE", "RIGHT_PAREN", "IF", "LEFT_PAREN", "TRUE", "RIGHT_PAREN", "BREAK", "SEMICOLON", "ELSE", "BREAK", "SEMICOLON"}, true, -1},
		{[]string{"LEFT_BRACE", "RIGHT_BRACE"}, true, -1},
		{[]string{"FUN", "IDENT", "LEFT_PAREN", "RIDENT", "RIGHT_PAREN", "LEFT_BRACE", "RIGHT_BRACE"}, true, -1},
	}
	for _, c := range cases {
		a, d := Recognize(g, c.k)
		if a != c.acc || d != c.dead {
			t.Errorf("%v: got %v %d want %v %d", c.k, a, d, c.acc, c.dead)
		}
	}
}

package model

import (
	"strconv"
	"strings"
)

// N is a model syntax-tree node (one generic shape keeps renderers,
// evaluators and comparators small).
//
//	expressions: num str bool nil id un bin log grp call idx prop arr obj asg iasg pasg
//	statements:  expr print var block if while for break continue return fun
type N struct {
	K     string
	Op    string   // operator lexeme (un, bin, log)
	S     string   // identifier / string value / property name / function name
	F     float64  // num
	B     bool     // bool
	A     []*N     // children (see constructors)
	Names []string // parameters / object keys / declared names
	Text  string   // num: source spelling, if it matters
	Line  int      // line of the node's reporting token (set by Render / Parse)
}

func Num(f float64) *N  { return &N{K: "num", F: f} }
func NumT(t string) *N  { v, _ := LiteralValue(t); return &N{K: "num", F: v, Text: t} }
func Str(s string) *N   { return &N{K: "str", S: s} }
func Bool(b bool) *N    { return &N{K: "bool", B: b} }
func Nil() *N           { return &N{K: "nil"} }
func Id(name string) *N { return &N{K: "id", S: name} }
func Un(op string, x *N) *N {
	return &N{K: "un", Op: op, A: []*N{x}}
}
func Bin(op string, l, r *N) *N { return &N{K: "bin", Op: op, A: []*N{l, r}} }

// Log builds a logical node; op is the spelling used (|| && বা এবং).
func Log(op string, l, r *N) *N        { return &N{K: "log", Op: op, A: []*N{l, r}} }
func Grp(x *N) *N                      { return &N{K: "grp", A: []*N{x}} }
func Call(f *N, args ...*N) *N         { return &N{K: "call", A: append([]*N{f}, args...)} }
func CallN(name string, args ...*N) *N { return Call(Id(name), args...) }
func Idx(x, i *N) *N                   { return &N{K: "idx", A: []*N{x, i}} }
func Prop(x *N, name string) *N        { return &N{K: "prop", S: name, A: []*N{x}} }
func Arr(el ...*N) *N                  { return &N{K: "arr", A: el} }
func Obj(keys []string, vals []*N) *N  { return &N{K: "obj", Names: keys, A: vals} }
func Asg(name string, v *N) *N         { return &N{K: "asg", S: name, A: []*N{v}} }
func IAsg(x, i, v *N) *N               { return &N{K: "iasg", A: []*N{x, i, v}} }
func PAsg(x *N, name string, v *N) *N  { return &N{K: "pasg", S: name, A: []*N{x, v}} }

func ExprS(x *N) *N  { return &N{K: "expr", A: []*N{x}} }
func Print(x *N) *N  { return &N{K: "print", A: []*N{x}} }
func Var(name string, init *N) *N {
	return &N{K: "var", Names: []string{name}, A: []*N{init}}
}
func VarList(names []string, inits []*N) *N { return &N{K: "var", Names: names, A: inits} }
func Block(st ...*N) *N                     { return &N{K: "block", A: st} }
func If(c, t, e *N) *N                      { return &N{K: "if", A: []*N{c, t, e}} }
func While(c, b *N) *N                      { return &N{K: "while", A: []*N{c, b}} }
func For(init, c, inc, b *N) *N             { return &N{K: "for", A: []*N{init, c, inc, b}} }
func Break() *N                             { return &N{K: "break"} }
func Continue() *N                          { return &N{K: "continue"} }
func Return(v *N) *N {
	if v == nil {
		return &N{K: "return"}
	}
	return &N{K: "return", A: []*N{v}}
}
func Fun(name string, params []string, body ...*N) *N {
	return &N{K: "fun", S: name, Names: params, A: body}
}

// Clone deep-copies a tree.
func (n *N) Clone() *N {
	if n == nil {
		return nil
	}
	c := *n
	c.A = make([]*N, len(n.A))
	for i, k := range n.A {
		c.A[i] = k.Clone()
	}
	c.Names = append([]string(nil), n.Names...)
	return &c
}

// Level is the ladder level of an expression node: higher binds tighter.
// assignment 1 < or 2 < and 3 < | 4 < ^ 5 < & 6 < equality 7 < comparison 8 <
// shift 9 < term 10 < factor 11 < power 12 < prefix 13 < suffix 14 < primary 15.
func (n *N) Level() int {
	switch n.K {
	case "asg", "iasg", "pasg":
		return 1
	case "log":
		if n.Op == "||" || n.Op == KwOr {
			return 2
		}
		return 3
	case "bin":
		return BinLevel[n.Op]
	case "un":
		return 13
	case "call", "idx", "prop":
		return 14
	}
	return 15
}

// BinLevel: ladder level of every binary operator (grammer.txt rule order).
var BinLevel = map[string]int{
	"|": 4, "^": 5, "&": 6, "==": 7, "!=": 7, "<": 8, "<=": 8, ">": 8, ">=": 8, "<<": 9, ">>": 9,
	"+": 10, "-": 10, "*": 11, "/": 11, "%": 11, "**": 12,
}

// BinOps lists the 17 binary operators, loosest level first.
var BinOps = []string{"|", "^", "&", "==", "!=", "<", "<=", ">", ">=", "<<", ">>", "+", "-", "*", "/", "%", "**"}

// Parenthesize returns a copy of the tree with grouping nodes inserted exactly
// where the ladder needs them for the text to parse back to the same tree
// (minimal=true), or around every non-primary operand (minimal=false).
func Parenthesize(n *N, minimal bool) *N {
	if n == nil {
		return nil
	}
	c := *n
	c.A = make([]*N, len(n.A))
	for i, k := range n.A {
		c.A[i] = Parenthesize(k, minimal)
	}
	wrap := func(i int, need bool) {
		k := c.A[i]
		if k == nil || k.K == "grp" {
			return
		}
		if need || (!minimal && k.Level() < 15) {
			c.A[i] = Grp(k)
		}
	}
	switch n.K {
	case "bin", "log":
		lv := n.Level()
		wrap(0, c.A[0].Level() < lv)  // left-assoc: same level on the left is fine
		wrap(1, c.A[1].Level() <= lv) // same level on the right needs parentheses
	case "un":
		wrap(0, c.A[0].Level() < 13)
	case "call":
		wrap(0, c.A[0].Level() < 14)
		for i := 1; i < len(c.A); i++ {
			wrap(i, false)
		}
	case "idx":
		wrap(0, c.A[0].Level() < 14)
		wrap(1, false)
	case "prop":
		// 1.x would lex as a number followed by garbage: numbers need parentheses too
		wrap(0, c.A[0].Level() < 14 || c.A[0].K == "num")
	case "asg":
		wrap(0, false)
	case "iasg":
		wrap(0, c.A[0].Level() < 14)
		wrap(1, false)
		wrap(2, false)
	case "pasg":
		wrap(0, c.A[0].Level() < 14 || c.A[0].K == "num")
		wrap(1, false)
	case "expr":
		// an expression statement may not start with '{'
		if startsWithBrace(c.A[0]) {
			c.A[0] = Grp(c.A[0])
		}
	default:
		for i := range c.A {
			wrap(i, false)
		}
	}
	return &c
}

func startsWithBrace(n *N) bool {
	for n != nil {
		switch n.K {
		case "obj":
			return true
		case "bin", "log", "call", "idx", "prop", "iasg", "pasg":
			n = n.A[0]
		default:
			return false
		}
	}
	return false
}

// ---------------------------------------------------------------- rendering

// Renderer writes a program as text: simple statements on one line each,
// blocks opened on the header line, and records each node's line.
type Renderer struct {
	sb      strings.Builder
	line    int
	ind     int
	oneLine bool
}

// Render writes the statements and sets Line on every node.
func Render(prog []*N) string {
	r := &Renderer{line: 1}
	for _, s := range prog {
		r.stmt(s)
	}
	return r.sb.String()
}

// RenderOneLine writes the whole program on a single line (every node's Line is 1).
// Strings containing newlines still advance the line counter.
func RenderOneLine(prog []*N) string {
	r := &Renderer{line: 1, oneLine: true}
	for _, s := range prog {
		r.stmt(s)
	}
	return strings.TrimRight(r.sb.String(), " ") + "\n"
}

// RenderExpr renders a single expression (Line fields set to 1).
func RenderExpr(e *N) string {
	r := &Renderer{line: 1}
	r.expr(e)
	return r.sb.String()
}

func (r *Renderer) nl() {
	if r.oneLine {
		r.sb.WriteByte(' ')
		return
	}
	r.sb.WriteByte('\n')
	r.line++
}
func (r *Renderer) w(s string) { r.sb.WriteString(s) }
func (r *Renderer) indent() {
	if r.oneLine {
		return
	}
	for i := 0; i < r.ind; i++ {
		r.sb.WriteString("  ")
	}
}

func (r *Renderer) stmt(s *N) {
	r.indent()
	r.stmtInline(s)
	r.nl()
}

// stmtInline renders a statement starting at the current position; nested
// blocks continue on following lines, the statement ends without newline.
func (r *Renderer) stmtInline(s *N) {
	s.Line = r.line
	switch s.K {
	case "expr":
		r.expr(s.A[0])
		r.w(";")
	case "print":
		r.w(KwPrint + " ")
		r.expr(s.A[0])
		r.w(";")
	case "var":
		r.w(KwVar + " ")
		for i, n := range s.Names {
			if i > 0 {
				r.w(", ")
			}
			r.w(n)
			if s.A[i] != nil {
				r.w(" = ")
				r.expr(s.A[i])
			}
		}
		r.w(";")
	case "block":
		r.w("{")
		r.nl()
		r.ind++
		for _, k := range s.A {
			r.stmt(k)
		}
		r.ind--
		r.indent()
		r.w("}")
	case "if":
		r.w(KwIf + " (")
		r.expr(s.A[0])
		r.w(") ")
		r.stmtInline(s.A[1])
		if s.A[2] != nil {
			r.w(" " + KwElse + " ")
			r.stmtInline(s.A[2])
		}
	case "while":
		r.w(KwWhile + " (")
		r.expr(s.A[0])
		r.w(") ")
		r.stmtInline(s.A[1])
	case "for":
		r.w(KwFor + " (")
		if s.A[0] == nil {
			r.w(";")
		} else {
			r.stmtInline(s.A[0])
		}
		r.w(" ")
		if s.A[1] != nil {
			r.expr(s.A[1])
		}
		r.w("; ")
		if s.A[2] != nil {
			r.expr(s.A[2])
		}
		r.w(") ")
		r.stmtInline(s.A[3])
	case "break":
		r.w(KwBreak + ";")
	case "continue":
		r.w(KwContinue + ";")
	case "return":
		r.w(KwReturn)
		if len(s.A) > 0 {
			r.w(" ")
			r.expr(s.A[0])
		}
		r.w(";")
	case "fun":
		r.w(KwFun + " " + s.S + "(" + strings.Join(s.Names, ", ") + ") {")
		r.nl()
		r.ind++
		for _, k := range s.A {
			r.stmt(k)
		}
		r.ind--
		r.indent()
		r.w("}")
	default:
		panic("render: unknown statement kind " + s.K)
	}
}

// FormatNumLit writes a number as a Borno literal (no exponent form exists in
// the language): integers as digits, others with a fraction.
func FormatNumLit(f float64) string {
	s := strconv.FormatFloat(f, 'f', -1, 64)
	return s
}

func (r *Renderer) expr(e *N) {
	e.Line = r.line
	switch e.K {
	case "num":
		if e.Text != "" {
			r.w(e.Text)
		} else {
			r.w(FormatNumLit(e.F))
		}
	case "str":
		r.w("\"" + e.S + "\"")
		r.line += strings.Count(e.S, "\n")
	case "bool":
		if e.B {
			r.w(KwTrue)
		} else {
			r.w(KwFalse)
		}
	case "nil":
		r.w("nil")
	case "id":
		r.w(e.S)
	case "un":
		r.w(e.Op)
		r.expr(e.A[0])
	case "bin", "log":
		r.expr(e.A[0])
		r.w(" " + e.Op + " ")
		e.Line = r.line
		r.expr(e.A[1])
	case "grp":
		r.w("(")
		r.expr(e.A[0])
		r.w(")")
	case "call":
		r.expr(e.A[0])
		r.w("(")
		for i, a := range e.A[1:] {
			if i > 0 {
				r.w(", ")
			}
			r.expr(a)
		}
		r.w(")")
		e.Line = r.line
	case "idx":
		r.expr(e.A[0])
		r.w("[")
		r.expr(e.A[1])
		r.w("]")
		e.Line = r.line
	case "prop":
		r.expr(e.A[0])
		r.w("." + e.S)
		e.Line = r.line
	case "arr":
		r.w("[")
		for i, a := range e.A {
			if i > 0 {
				r.w(", ")
			}
			r.expr(a)
		}
		r.w("]")
	case "obj":
		r.w("{")
		for i, a := range e.A {
			if i > 0 {
				r.w(", ")
			}
			r.w(e.Names[i] + ": ")
			r.expr(a)
		}
		r.w("}")
	case "asg":
		r.w(e.S + " = ")
		e.Line = r.line
		r.expr(e.A[0])
	case "iasg":
		r.expr(e.A[0])
		r.w("[")
		r.expr(e.A[1])
		r.w("] = ")
		e.Line = r.line
		r.expr(e.A[2])
	case "pasg":
		r.expr(e.A[0])
		r.w("." + e.S + " = ")
		e.Line = r.line
		r.expr(e.A[1])
	default:
		panic("render: unknown expression kind " + e.K)
	}
}

// FixDangling wraps the then-branch of an if-else in a block when that branch
// ends in an else-less if (otherwise the else would attach to the inner if).
// The tree is modified in place and returned.
func FixDangling(n *N) *N {
	if n == nil {
		return nil
	}
	for _, k := range n.A {
		FixDangling(k)
	}
	if n.K == "if" && n.A[2] != nil && danglingTail(n.A[1]) {
		n.A[1] = Block(n.A[1])
	}
	return n
}

func danglingTail(s *N) bool {
	switch s.K {
	case "if":
		return s.A[2] == nil || danglingTail(s.A[2])
	case "while":
		return danglingTail(s.A[1])
	case "for":
		return danglingTail(s.A[3])
	}
	return false
}

package model

import "fmt"

// Parser is the ladder parser: statements by plain descent, expressions by
// precedence climbing over the documented ladder (BinLevel): all binary
// levels left-associative, assignment right-associative, prefix operators
// tighter than **, suffixes tightest.  It is only meant for texts the
// grammar accepts; anything else is reported as an error.
type Parser struct {
	t   []Tok
	pos int
}

type parseErr struct{ msg string }

func ParseTokens(toks []Tok) (prog []*N, err error) {
	p := &Parser{t: toks}
	defer func() {
		if r := recover(); r != nil {
			if pe, ok := r.(parseErr); ok {
				err = fmt.Errorf("%s", pe.msg)
				return
			}
			panic(r)
		}
	}()
	for p.peek().Kind != "EOF" {
		prog = append(prog, p.declaration())
	}
	return prog, nil
}

// ParseSource lexes and parses; lexical errors are reported as an error.
func ParseSource(src string) ([]*N, error) {
	toks, errs := Lex(src)
	if len(errs) > 0 {
		return nil, fmt.Errorf("lexical error")
	}
	return ParseTokens(toks)
}

func (p *Parser) peek() Tok { return p.t[p.pos] }
func (p *Parser) next() Tok {
	t := p.t[p.pos]
	if t.Kind != "EOF" {
		p.pos++
	}
	return t
}
func (p *Parser) is(k string) bool { return p.peek().Kind == k }
func (p *Parser) accept(k string) bool {
	if p.is(k) {
		p.pos++
		return true
	}
	return false
}
func (p *Parser) expect(k string) Tok {
	if !p.is(k) {
		panic(parseErr{fmt.Sprintf("expected %s, found %s %q at line %d", k, p.peek().Kind, p.peek().Lexeme, p.peek().Line)})
	}
	return p.next()
}

func (p *Parser) declaration() *N {
	switch {
	case p.accept("FUN"):
		name := p.expect("IDENTIFIER")
		p.expect("LEFT_PAREN")
		var params []string
		if !p.is("RIGHT_PAREN") {
			for {
				params = append(params, p.expect("IDENTIFIER").Lexeme)
				if !p.accept("COMMA") {
					break
				}
			}
		}
		p.expect("RIGHT_PAREN")
		p.expect("LEFT_BRACE")
		n := Fun(name.Lexeme, params, p.blockBody()...)
		n.Line = name.Line
		return n
	case p.accept("VAR"):
		return p.varDecl()
	}
	return p.statement()
}

func (p *Parser) varDecl() *N {
	n := &N{K: "var"}
	for {
		name := p.expect("IDENTIFIER")
		if n.Line == 0 {
			n.Line = name.Line
		}
		n.Names = append(n.Names, name.Lexeme)
		if p.accept("EQUAL") {
			n.A = append(n.A, p.expression())
		} else {
			n.A = append(n.A, nil)
		}
		if !p.accept("COMMA") {
			break
		}
	}
	p.expect("SEMICOLON")
	return n
}

func (p *Parser) blockBody() []*N {
	var st []*N
	for !p.is("RIGHT_BRACE") {
		if p.is("EOF") {
			panic(parseErr{"unterminated block"})
		}
		st = append(st, p.declaration())
	}
	p.expect("RIGHT_BRACE")
	return st
}

func (p *Parser) statement() *N {
	t := p.peek()
	switch t.Kind {
	case "IF":
		p.next()
		p.expect("LEFT_PAREN")
		c := p.expression()
		p.expect("RIGHT_PAREN")
		th := p.statement()
		var el *N
		if p.accept("ELSE") { // nearest if
			el = p.statement()
		}
		return If(c, th, el)
	case "WHILE":
		p.next()
		p.expect("LEFT_PAREN")
		c := p.expression()
		p.expect("RIGHT_PAREN")
		return While(c, p.statement())
	case "FOR":
		p.next()
		p.expect("LEFT_PAREN")
		var init *N
		switch {
		case p.accept("SEMICOLON"):
		case p.accept("VAR"):
			init = p.varDecl()
		default:
			e := p.expression()
			p.expect("SEMICOLON")
			init = ExprS(e)
		}
		var cond, inc *N
		if !p.is("SEMICOLON") {
			cond = p.expression()
		}
		p.expect("SEMICOLON")
		if !p.is("RIGHT_PAREN") {
			inc = p.expression()
		}
		p.expect("RIGHT_PAREN")
		return For(init, cond, inc, p.statement())
	case "PRINT":
		p.next()
		e := p.expression()
		p.expect("SEMICOLON")
		n := Print(e)
		n.Line = t.Line
		return n
	case "RETURN":
		p.next()
		var v *N
		if !p.is("SEMICOLON") {
			v = p.expression()
		}
		p.expect("SEMICOLON")
		n := Return(v)
		n.Line = t.Line
		return n
	case "BREAK":
		p.next()
		semi := p.expect("SEMICOLON")
		n := Break()
		n.Line = semi.Line
		return n
	case "CONTINUE":
		p.next()
		semi := p.expect("SEMICOLON")
		n := Continue()
		n.Line = semi.Line
		return n
	case "LEFT_BRACE":
		p.next()
		return Block(p.blockBody()...)
	}
	e := p.expression()
	p.expect("SEMICOLON")
	return ExprS(e)
}

func (p *Parser) expression() *N { return p.climb(1) }

// binary operator at the current token: level and node kind
func (p *Parser) binop() (lvl int, kind string) {
	t := p.peek()
	switch t.Kind {
	case "LOGICAL_OR":
		return 2, "log"
	case "LOGICAL_AND":
		return 3, "log"
	case "EQUAL":
		return 1, "asg"
	}
	if l, ok := BinLevel[t.Lexeme]; ok && t.Kind != "STRING" && t.Kind != "IDENTIFIER" {
		return l, "bin"
	}
	return 0, ""
}

// climb parses an expression whose operators all have level >= min.
func (p *Parser) climb(min int) *N {
	left := p.prefix()
	for {
		lvl, kind := p.binop()
		if kind == "" || lvl < min {
			return left
		}
		op := p.next()
		if kind == "asg" {
			// right-associative; the target must be a name or end in [..] / .name
			val := p.climb(1)
			var n *N
			switch left.K {
			case "id":
				n = Asg(left.S, val)
			case "idx":
				n = IAsg(left.A[0], left.A[1], val)
			case "prop":
				n = PAsg(left.A[0], left.S, val)
			default:
				panic(parseErr{"invalid assignment target"})
			}
			n.Line = op.Line
			return n
		}
		right := p.climb(lvl + 1) // left-associative
		var n *N
		if kind == "log" {
			n = Log(op.Lexeme, left, right)
		} else {
			n = Bin(op.Lexeme, left, right)
		}
		n.Line = op.Line
		left = n
	}
}

func (p *Parser) prefix() *N {
	t := p.peek()
	switch t.Kind {
	case "BANG", "MINUS", "NOT":
		p.next()
		n := Un(t.Lexeme, p.prefix())
		n.Line = t.Line
		return n
	}
	return p.suffixes(p.primary())
}

func (p *Parser) suffixes(e *N) *N {
	for {
		switch {
		case p.accept("LEFT_PAREN"):
			var args []*N
			if !p.is("RIGHT_PAREN") {
				for {
					args = append(args, p.expression())
					if !p.accept("COMMA") {
						break
					}
				}
			}
			rp := p.expect("RIGHT_PAREN")
			e = Call(e, args...)
			e.Line = rp.Line
		case p.accept("LEFT_BRACKET"):
			i := p.expression()
			rb := p.expect("RIGHT_BRACKET")
			e = Idx(e, i)
			e.Line = rb.Line
		case p.accept("DOT"):
			name := p.expect("IDENTIFIER")
			e = Prop(e, name.Lexeme)
			e.Line = name.Line
		default:
			return e
		}
	}
}

func (p *Parser) primary() *N {
	t := p.next()
	var n *N
	switch t.Kind {
	case "NUMBER":
		n = &N{K: "num", F: t.Num, Text: t.Lexeme}
	case "STRING":
		n = Str(t.Str)
	case "TRUE":
		n = Bool(true)
	case "FALSE":
		n = Bool(false)
	case "NIL":
		n = Nil()
	case "IDENTIFIER":
		n = Id(t.Lexeme)
	case "LEFT_PAREN":
		e := p.expression()
		rp := p.expect("RIGHT_PAREN")
		n = Grp(e)
		n.Line = rp.Line
		return n
	case "LEFT_BRACKET":
		var el []*N
		if !p.is("RIGHT_BRACKET") {
			for {
				el = append(el, p.expression())
				if !p.accept("COMMA") {
					break
				}
			}
		}
		p.expect("RIGHT_BRACKET")
		n = Arr(el...)
	case "LEFT_BRACE":
		var keys []string
		var vals []*N
		for !p.is("RIGHT_BRACE") {
			k := p.expect("IDENTIFIER")
			p.expect("COLON")
			keys = append(keys, k.Lexeme)
			vals = append(vals, p.expression())
			if !p.accept("COMMA") {
				break
			}
		}
		p.expect("RIGHT_BRACE")
		n = Obj(keys, vals)
	default:
		panic(parseErr{fmt.Sprintf("unexpected %s %q at line %d", t.Kind, t.Lexeme, t.Line)})
	}
	n.Line = t.Line
	return n
}

// SameTree compares two trees structurally (lines and literal spellings are
// ignored; logical operators by meaning; object literals as key→value maps,
// the last duplicate winning; a missing for-condition equals `true`).
func SameTree(a, b *N) bool {
	if a == nil || b == nil {
		return a == nil && b == nil
	}
	if a.K != b.K {
		return false
	}
	switch a.K {
	case "num":
		return a.F == b.F || (a.F != a.F && b.F != b.F)
	case "str", "id":
		return a.S == b.S
	case "bool":
		return a.B == b.B
	case "log":
		if (a.Op == "||" || a.Op == KwOr) != (b.Op == "||" || b.Op == KwOr) {
			return false
		}
	case "un", "bin":
		if a.Op != b.Op {
			return false
		}
	case "prop", "pasg", "asg", "fun":
		if a.S != b.S {
			return false
		}
	case "obj":
		am, bm := map[string]*N{}, map[string]*N{}
		for i, k := range a.Names {
			am[k] = a.A[i]
		}
		for i, k := range b.Names {
			bm[k] = b.A[i]
		}
		if len(am) != len(bm) {
			return false
		}
		for k, v := range am {
			if w, ok := bm[k]; !ok || !SameTree(v, w) {
				return false
			}
		}
		return true
	case "for":
		ca, cb := a.A[1], b.A[1]
		if ca == nil {
			ca = Bool(true)
		}
		if cb == nil {
			cb = Bool(true)
		}
		return SameTree(a.A[0], b.A[0]) && SameTree(ca, cb) && SameTree(a.A[2], b.A[2]) && SameTree(a.A[3], b.A[3])
	}
	if a.K == "fun" || a.K == "var" {
		if len(a.Names) != len(b.Names) {
			return false
		}
		for i := range a.Names {
			if a.Names[i] != b.Names[i] {
				return false
			}
		}
	}
	if len(a.A) != len(b.A) {
		return false
	}
	for i := range a.A {
		if !SameTree(a.A[i], b.A[i]) {
			return false
		}
	}
	return true
}

// StripGroups returns a copy without grouping nodes.
func StripGroups(n *N) *N {
	if n == nil {
		return nil
	}
	if n.K == "grp" {
		return StripGroups(n.A[0])
	}
	c := *n
	c.A = make([]*N, len(n.A))
	for i, k := range n.A {
		c.A[i] = StripGroups(k)
	}
	return &c
}

// Show renders a tree as an S-expression (diagnostics).
func Show(n *N) string {
	if n == nil {
		return "_"
	}
	s := "(" + n.K
	if n.Op != "" {
		s += " " + n.Op
	}
	if n.S != "" || n.K == "str" {
		s += fmt.Sprintf(" %q", n.S)
	}
	if n.K == "num" {
		s += " " + FormatNum(n.F)
	}
	if n.K == "bool" {
		s += fmt.Sprintf(" %v", n.B)
	}
	for _, nm := range n.Names {
		s += " " + nm
	}
	for _, k := range n.A {
		s += " " + Show(k)
	}
	return s + ")"
}

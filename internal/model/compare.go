package model

import (
	"fmt"
	"math"
	"regexp"
	"sort"
	"strconv"
	"strings"
)

func atoms(s string) []string {
	s = strings.ReplaceAll(s, "<nil>", "nil")
	s = strings.ReplaceAll(s, "map[", "[")
	s = strings.Map(func(r rune) rune {
		switch r {
		case '[', ']', '{', '}', ',', ':', '"':
			return ' '
		}
		return r
	}, s)
	return strings.Fields(s)
}

func atomEq(a, b string) bool {
	if a == b {
		return true
	}
	fa, ea := strconv.ParseFloat(a, 64)
	fb, eb := strconv.ParseFloat(b, 64)
	if ea != nil || eb != nil {
		return false
	}
	if fa == 0 && fb == 0 && StrictZero {
		return math.Signbit(fa) == math.Signbit(fb)
	}
	return fa == fb || (fa != fa && fb != fb)
}

// StrictZero: the implementation prints -0 and 0 differently (calibrated by
// the checks), so the sign of a printed zero is compared too.
var StrictZero bool

// LineEq compares one printed line tolerantly: exact, or equal atom
// sequences (multisets when the value holds an object), numbers by value.
func LineEq(exp, got string, hasObj bool) bool {
	if exp == got {
		return true
	}
	if StrictContainers {
		// the implementation uses the container syntax the model writes (calibrated): only the
		// text of numbers may differ, so the lines must agree once numerals are canonicalised
		return canonNumerals(exp) == canonNumerals(got)
	}
	ea, ga := atoms(exp), atoms(got)
	if len(ea) != len(ga) {
		return false
	}
	if hasObj {
		sort.Strings(ea)
		sort.Strings(ga)
	}
	for i := range ea {
		if !atomEq(ea[i], ga[i]) {
			return false
		}
	}
	return true
}

// CompareStdout checks the implementation's stdout against the model's
// events.  It returns "" when they agree, else a description.
func CompareStdout(r *Result, got string) string {
	if r.Stdout() == got {
		return ""
	}
	rest := got
	for i, e := range r.Events {
		if e.Prompt {
			if !strings.HasPrefix(rest, e.Text) {
				return fmt.Sprintf("output event %d: expected prompt %q, got %q", i, e.Text, clip(rest))
			}
			rest = rest[len(e.Text):]
			continue
		}
		nl := strings.Count(e.Text, "\n") + 1
		var lines []string
		for k := 0; k < nl; k++ {
			j := strings.IndexByte(rest, '\n')
			if j < 0 {
				return fmt.Sprintf("output event %d: expected %q, output ends with %q", i, e.Text, clip(rest))
			}
			lines = append(lines, rest[:j])
			rest = rest[j+1:]
		}
		g := strings.Join(lines, "\n")
		if e.HasRef {
			continue
		}
		if !LineEq(e.Text, g, e.HasObj) {
			return fmt.Sprintf("output event %d: expected %q, got %q", i, e.Text, g)
		}
	}
	if rest != "" {
		return fmt.Sprintf("extra output after the %d expected events: %q", len(r.Events), clip(rest))
	}
	return ""
}

func clip(s string) string {
	if len(s) > 80 {
		return strings.ToValidUTF8(s[:80], "") + "…"
	}
	return s
}

// StrictContainers: the implementation prints arrays and objects in exactly the concrete syntax
// the model uses (calibrated by the checks on a few values); separators and brackets are then
// compared literally.
var StrictContainers bool

var numeralRe = regexp.MustCompile(`[-+]?(?:[0-9]+\.?[0-9]*(?:[eE][-+]?[0-9]+)?|Inf|NaN)`)

func canonNumerals(s string) string {
	return numeralRe.ReplaceAllStringFunc(s, func(t string) string {
		f, err := strconv.ParseFloat(t, 64)
		if err != nil {
			return t
		}
		if f == 0 && !StrictZero {
			f = 0
		}
		return strconv.FormatFloat(f, 'g', -1, 64)
	})
}

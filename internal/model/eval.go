package model

import (
	"fmt"
	"math"
	"sort"
	"strconv"
	"strings"

	"golang.org/x/text/unicode/norm"
)

// ---------------------------------------------------------------- values

// Value kinds: nil (Go nil), bool, float64, string, *ArrV, *ObjV, *FnV, *BuiltinV.
type Value interface{}

type ArrV struct{ E []Value }
type ObjV struct {
	Keys []string // insertion order (listing order is unspecified to the oracle)
	M    map[string]Value
}
type FnV struct {
	Decl *N
	Env  *Scope
	Seq  int      // creation time
	Free []string // free names of the body (computed lazily)
	free bool
}
type BuiltinV struct{ Name string }

func KindOf(v Value) string {
	switch v.(type) {
	case nil:
		return "nil"
	case bool:
		return "bool"
	case float64:
		return "number"
	case string:
		return "string"
	case *ArrV:
		return "array"
	case *ObjV:
		return "object"
	case *FnV:
		return "function"
	case *BuiltinV:
		return "builtin"
	}
	return "?"
}

// Scope is one table of bindings.
type Scope struct {
	Vars   map[string]Value
	Parent *Scope
	ID     int
	Seq    map[string]int // declaration time of each name
}

func (s *Scope) lookup(name string) *Scope {
	for p := s; p != nil; p = p.Parent {
		if _, ok := p.Vars[name]; ok {
			return p
		}
	}
	return nil
}

// RunErr is the first runtime error of an execution.
type RunErr struct {
	Kind string
	Line int
	Msg  string
	Name string // identifier involved, if any (quoted by diagnostics)
}

// Event is one write to stdout.
type Event struct {
	Text   string // exact text for prompts; model text for prints (without newline)
	Prompt bool   // an ইনপুট prompt: no newline follows
	HasObj bool   // printed value contains an object (property order unspecified)
	HasRef bool   // printed value is/contains a function (text unspecified)
	V      Value
}

// Result of a model execution.
type Result struct {
	Events   []Event
	Err      *RunErr
	Unspec   string // non-empty: the program left the specified domain (reason)
	Diverged bool   // step budget exceeded
	Steps    int
	Values   []Value // values of top-level expression statements
	InputUse int     // stdin lines consumed
	// AltErrorLines: lines of statements at which a runtime error is an acceptable alternative
	// outcome (the model itself carried on)
	AltErrorLines []int
}

// Stdout is the model's expected stdout (model rendering of containers).
func (r *Result) Stdout() string {
	var sb strings.Builder
	for _, e := range r.Events {
		sb.WriteString(e.Text)
		if !e.Prompt {
			sb.WriteByte('\n')
		}
	}
	return sb.String()
}

// Status is the exit status the CLI must produce for a syntactically valid program.
func (r *Result) Status() int {
	if r.Err != nil {
		return 70
	}
	return 0
}

type ctl int

const (
	ctlNone ctl = iota
	ctlBreak
	ctlContinue
	ctlReturn
)

type unspec struct{ why string }
type runtimeErr struct{ e RunErr }
type diverged struct{}

// Machine runs model programs.
type Machine struct {
	Stdin     []string // lines available to ইনপুট (already split, without terminators)
	StdinTail string   // unterminated last line ("" if none)
	Clock     float64
	MaxSteps  int
	Repl      bool // interactive mode: top-level expression statements echo their value

	res     Result
	globals *Scope
	top     *Scope
	nextID  int
	retVal  Value
	seq     int
	fns     []*FnV
	lastExprVal Value
	ctlLine int
	depth   int
}

func (m *Machine) newScope(parent *Scope) *Scope {
	m.nextID++
	return &Scope{Vars: map[string]Value{}, Parent: parent, ID: m.nextID}
}

// TopVar returns the value of a program-level variable after Run.
func (m *Machine) TopVar(name string) (Value, bool) {
	if m.top == nil {
		return nil, false
	}
	v, ok := m.top.Vars[name]
	return v, ok
}

// Run executes a program (list of statements) from a fresh state.
func (m *Machine) Run(prog []*N) (res *Result) {
	if m.MaxSteps == 0 {
		m.MaxSteps = 20000
	}
	m.res = Result{}
	m.fns = nil
	m.seq = 0
	m.globals = m.newScope(nil)
	for _, b := range Builtins {
		m.globals.Vars[b] = &BuiltinV{b}
	}
	top := m.newScope(m.globals)
	m.top = top
	defer func() {
		if r := recover(); r != nil {
			switch v := r.(type) {
			case unspec:
				m.res.Unspec = v.why
			case runtimeErr:
				e := v.e
				m.res.Err = &e
			case diverged:
				m.res.Diverged = true
			default:
				panic(r)
			}
		}
		res = &m.res
	}()
	for _, s := range prog {
		c := m.exec(s, top)
		switch c {
		case ctlBreak:
			m.fail("stray-break", m.ctlLine, "break outside loop")
		case ctlContinue:
			m.fail("stray-continue", m.ctlLine, "continue outside loop")
		case ctlReturn:
			m.fail("stray-return", m.ctlLine, "return outside function")
		}
		if s.K == "expr" {
			if m.Repl {
				if _, u := m.lastExprVal.(unspecValue); u {
					m.unspec("echo of an unspecified value")
				}
				m.res.Events = append(m.res.Events, m.printEvent(m.lastExprVal))
			}
			m.res.Values = append(m.res.Values, m.lastExprVal)
		} else {
			m.res.Values = append(m.res.Values, nil)
		}
	}
	return
}

// declare binds name in sc, and enforces the domain restriction of C03: a
// declaration made in the declaring scope of an existing closure (or an
// ancestor of it), closer than the binding that closure's free use of the
// name resolved to when it was created, puts the program outside the domain
// (static and dynamic resolution differ there).
func (m *Machine) declare(sc *Scope, name string, v Value) {
	m.seq++
	for _, f := range m.fns {
		if !f.mentionsFree(name) {
			continue
		}
		onChain, resolved := false, false
		for p := f.Env; p != nil; p = p.Parent {
			if p == sc {
				onChain = true
				break
			}
			if s, ok := p.Seq[name]; ok && s < f.Seq {
				break // the closure's name resolved here at creation; sc is not closer
			}
		}
		if !onChain {
			continue
		}
		for p := sc.Parent; p != nil; p = p.Parent {
			if s, ok := p.Seq[name]; ok && s < f.Seq {
				resolved = true
			}
			if _, builtin := p.Vars[name]; builtin && p == m.globals {
				resolved = true
			}
		}
		// a forward reference to a program-level name that had no binding at
		// all when the closure was created (mutual recursion) is late-bound
		// under both readings; everything else leaves the domain
		if sc == m.top && !resolved {
			continue
		}
		m.unspec("declaration of a name after a closure reading it from an enclosing scope was created")
	}
	sc.Vars[name] = v
	if sc.Seq == nil {
		sc.Seq = map[string]int{}
	}
	sc.Seq[name] = m.seq
}

func (f *FnV) mentionsFree(name string) bool {
	if !f.free {
		f.free = true
		set := map[string]bool{}
		freeNames(f.Decl, map[string]bool{}, set)
		for k := range set {
			f.Free = append(f.Free, k)
		}
	}
	for _, n := range f.Free {
		if n == name {
			return true
		}
	}
	return false
}

// freeNames collects identifiers used in n that are not bound by an enclosing
// parameter list / earlier declaration of the same function body (textual
// order; conservative: block structure inside the body is ignored for
// declarations, i.e. a name declared anywhere earlier in the body is bound).
func freeNames(n *N, bound map[string]bool, out map[string]bool) {
	if n == nil {
		return
	}
	switch n.K {
	case "fun":
		inner := map[string]bool{}
		for k := range bound {
			inner[k] = true
		}
		bound[n.S] = true
		inner[n.S] = true
		for _, p := range n.Names {
			inner[p] = true
		}
		for _, s := range n.A {
			freeNames(s, inner, out)
		}
		return
	case "id", "asg":
		if !bound[n.S] {
			out[n.S] = true
		}
	case "var":
		for i, name := range n.Names {
			freeNames(n.A[i], bound, out)
			bound[name] = true
		}
		return
	}
	for _, k := range n.A {
		freeNames(k, bound, out)
	}
}

func (m *Machine) fail(kind string, line int, msg string) {
	panic(runtimeErr{RunErr{Kind: kind, Line: line, Msg: msg}})
}
func (m *Machine) failN(kind string, line int, msg, name string) {
	panic(runtimeErr{RunErr{Kind: kind, Line: line, Msg: msg, Name: name}})
}
func (m *Machine) unspec(why string) { panic(unspec{why}) }
func (m *Machine) step() {
	m.res.Steps++
	if m.res.Steps > m.MaxSteps {
		panic(diverged{})
	}
}

// ---------------------------------------------------------------- statements

func (m *Machine) exec(s *N, sc *Scope) ctl {
	m.step()
	switch s.K {
	case "expr":
		m.lastExprVal = m.evalRaw(s.A[0], sc)
	case "print":
		v := m.eval(s.A[0], sc)
		m.res.Events = append(m.res.Events, m.printEvent(v))
	case "var":
		for i, name := range s.Names {
			var v Value
			if s.A[i] != nil {
				v = m.eval(s.A[i], sc)
			}
			if _, ok := sc.Vars[name]; ok {
				m.failN("redeclare", s.Line, "redeclaration of "+name, name)
			}
			m.declare(sc, name, v)
		}
	case "block":
		inner := m.newScope(sc)
		for _, k := range s.A {
			if c := m.exec(k, inner); c != ctlNone {
				return c
			}
		}
	case "if":
		if Truthy(m.eval(s.A[0], sc)) {
			return m.exec(s.A[1], sc)
		} else if s.A[2] != nil {
			return m.exec(s.A[2], sc)
		}
	case "while":
		for Truthy(m.eval(s.A[0], sc)) {
			m.step()
			c := m.exec(s.A[1], sc)
			if c == ctlBreak {
				break
			}
			if c == ctlReturn {
				return c
			}
		}
	case "for":
		fs := m.newScope(sc)
		if s.A[0] != nil {
			if c := m.exec(s.A[0], fs); c != ctlNone {
				return c
			}
		}
		for {
			m.step()
			if s.A[1] != nil && !Truthy(m.eval(s.A[1], fs)) {
				break
			}
			c := m.exec(s.A[3], fs)
			if c == ctlBreak {
				break
			}
			if c == ctlReturn {
				return c
			}
			if s.A[2] != nil {
				m.eval(s.A[2], fs)
			}
		}
	case "break":
		m.ctlLine = s.Line
		return ctlBreak
	case "continue":
		m.ctlLine = s.Line
		return ctlContinue
	case "return":
		m.retVal = nil
		if len(s.A) > 0 {
			m.retVal = m.eval(s.A[0], sc)
		}
		m.ctlLine = s.Line
		return ctlReturn
	case "fun":
		if _, ok := sc.Vars[s.S]; ok {
			// a function declaration of a name the scope already binds: either it is refused (a
			// runtime error at this statement) or from here on the name denotes the new function;
			// the model follows the second reading and records the line so that the first one is
			// accepted too -- what is not acceptable is a declaration that silently does nothing
			m.res.AltErrorLines = append(m.res.AltErrorLines, s.Line)
		}
		f := &FnV{Decl: s, Env: sc}
		m.declare(sc, s.S, f)
		f.Seq = m.seq
		m.fns = append(m.fns, f)
	default:
		panic("model exec: unknown statement " + s.K)
	}
	return ctlNone
}

// ---------------------------------------------------------------- expressions

func Truthy(v Value) bool {
	switch x := v.(type) {
	case nil:
		return false
	case bool:
		return x
	case float64:
		return x != 0
	case string:
		return x != ""
	}
	return true
}

func (m *Machine) eval(e *N, sc *Scope) Value {
	v := m.evalRaw(e, sc)
	if u, ok := v.(unspecValue); ok {
		m.unspec("use of " + u.why)
	}
	return v
}

func (m *Machine) evalRaw(e *N, sc *Scope) Value {
	m.step()
	switch e.K {
	case "num":
		return e.F
	case "str":
		return e.S
	case "bool":
		return e.B
	case "nil":
		return nil
	case "id":
		p := sc.lookup(e.S)
		if p == nil {
			m.failN("undefined-var", e.Line, "undefined variable "+e.S, e.S)
		}
		return p.Vars[e.S]
	case "grp":
		return m.evalRaw(e.A[0], sc)
	case "un":
		v := m.eval(e.A[0], sc)
		return m.unary(e, v)
	case "bin":
		l := m.eval(e.A[0], sc)
		r := m.eval(e.A[1], sc)
		return m.binary(e, l, r)
	case "log":
		l := m.eval(e.A[0], sc)
		isOr := e.Op == "||" || e.Op == KwOr
		if isOr == Truthy(l) {
			return l
		}
		return m.eval(e.A[1], sc)
	case "asg":
		v := m.eval(e.A[0], sc)
		p := sc.lookup(e.S)
		if p == nil {
			m.failN("undefined-assign", e.Line, "assignment to undefined variable "+e.S, e.S)
		}
		p.Vars[e.S] = v
		return v
	case "arr":
		a := &ArrV{}
		for _, k := range e.A {
			a.E = append(a.E, m.eval(k, sc))
		}
		return a
	case "obj":
		o := &ObjV{M: map[string]Value{}}
		for i, k := range e.A {
			v := m.eval(k, sc)
			name := e.Names[i]
			if _, dup := o.M[name]; dup {
				m.unspec("duplicate key in object literal")
			}
			o.Keys = append(o.Keys, name)
			o.M[name] = v
		}
		return o
	case "idx":
		x := m.eval(e.A[0], sc)
		i := m.eval(e.A[1], sc)
		a, ok := x.(*ArrV)
		if !ok {
			m.fail("not-array", e.Line, "index on "+KindOf(x))
		}
		k := m.index(e, a, i)
		return a.E[k]
	case "iasg":
		x := m.eval(e.A[0], sc)
		i := m.eval(e.A[1], sc)
		v := m.eval(e.A[2], sc)
		a, ok := x.(*ArrV)
		if !ok {
			m.fail("not-array", e.Line, "indexed store on "+KindOf(x))
		}
		k := m.index(e, a, i)
		a.E[k] = v
		return v
	case "prop":
		x := m.eval(e.A[0], sc)
		o, ok := x.(*ObjV)
		if !ok {
			m.fail("not-object", e.Line, "property of "+KindOf(x))
		}
		v, ok := o.M[e.S]
		if !ok {
			m.failN("no-prop", e.Line, "no property "+e.S, e.S)
		}
		return v
	case "pasg":
		x := m.eval(e.A[0], sc)
		o, ok := x.(*ObjV)
		if !ok {
			// the value expression is not evaluated by the implementation
			// before this check; order relative to the value's side effects
			// is only observable with a faulting target (C06 handles it)
			m.fail("not-object", e.Line, "property store on "+KindOf(x))
		}
		v := m.eval(e.A[1], sc)
		if _, had := o.M[e.S]; !had {
			o.Keys = append(o.Keys, e.S)
		}
		o.M[e.S] = v
		return v
	case "call":
		return m.call(e, sc)
	}
	panic("model eval: unknown expression " + e.K)
}

func (m *Machine) index(e *N, a *ArrV, i Value) int {
	f, ok := i.(float64)
	if !ok {
		if s, isStr := i.(string); isStr && looksNumeric(s) {
			m.unspec("numeric-looking string used as index")
		}
		m.fail("index-type", e.Line, "index is "+KindOf(i))
	}
	if f != math.Trunc(f) || math.IsInf(f, 0) || math.IsNaN(f) {
		m.fail("index-type", e.Line, "fractional index")
	}
	if f < 0 || f >= float64(len(a.E)) {
		m.fail("index-range", e.Line, "index out of range")
	}
	return int(f)
}

func looksNumeric(s string) bool {
	var sb strings.Builder
	for _, r := range s {
		if r >= 0x09E6 && r <= 0x09EF {
			sb.WriteByte(byte('0' + r - 0x09E6))
		} else {
			sb.WriteRune(r)
		}
	}
	_, err := strconv.ParseFloat(strings.TrimSpace(sb.String()), 64)
	return err == nil
}

func (m *Machine) num(e *N, v Value, side string) float64 {
	f, ok := v.(float64)
	if !ok {
		if s, isStr := v.(string); isStr && looksNumeric(s) {
			m.unspec("numeric-looking string used as a number")
		}
		m.fail("type", e.Line, side+" operand of "+e.Op+" is "+KindOf(v))
	}
	return f
}

func (m *Machine) int64of(e *N, v Value, side string) int64 {
	f := m.num(e, v, side)
	if f != math.Trunc(f) || math.IsNaN(f) || math.IsInf(f, 0) {
		m.fail("type", e.Line, side+" operand of "+e.Op+" is not integral")
	}
	if f < -9223372036854775808.0 || f >= 9223372036854775808.0 {
		m.fail("type", e.Line, side+" operand of "+e.Op+" is out of the 64-bit range")
	}
	return int64(f)
}

func (m *Machine) unary(e *N, v Value) Value {
	switch e.Op {
	case "!":
		return !Truthy(v)
	case "-":
		return -m.num(e, v, "the")
	case "~":
		return float64(^m.int64of(e, v, "the"))
	}
	panic("model: unary " + e.Op)
}

// Equal implements == : nil when the answer is unspecified.
func Equal(a, b Value) *bool {
	t, f := true, false
	ka, kb := KindOf(a), KindOf(b)
	if ka != kb {
		// user functions and built-ins are both "functions" but never the same value
		return &f
	}
	switch x := a.(type) {
	case nil:
		return &t
	case bool:
		r := x == b.(bool)
		return &r
	case float64:
		r := x == b.(float64)
		return &r
	case string:
		r := x == b.(string)
		return &r
	case *ArrV:
		if x == b.(*ArrV) {
			return &t
		}
		return nil
	case *ObjV:
		if x == b.(*ObjV) {
			return &t
		}
		return nil
	case *FnV:
		if x == b.(*FnV) {
			return &t
		}
		return nil
	case *BuiltinV:
		// the two names of the input built-in denote one function
		canon := func(n string) string {
			if n == BiInputLatin {
				return BiInput
			}
			return n
		}
		if canon(x.Name) == canon(b.(*BuiltinV).Name) {
			return &t
		}
		return &f
	}
	return nil
}

func (m *Machine) binary(e *N, l, r Value) Value {
	switch e.Op {
	case "+":
		ls, lstr := l.(string)
		rs, rstr := r.(string)
		lf, lnum := l.(float64)
		rf, rnum := r.(float64)
		switch {
		case lnum && rnum:
			return lf + rf
		case lstr && rstr:
			return ls + rs
		case lstr && rnum:
			return ls + FormatNum(rf)
		case lnum && rstr:
			if looksNumeric(rs) {
				// the implementation coerces numeric-looking strings first
				m.unspec("number + numeric-looking string")
			}
			return FormatNum(lf) + rs
		case lstr:
			if _, isBool := r.(bool); isBool {
				m.unspec("string + boolean (sources disagree)")
			}
		}
		m.fail("type", e.Line, "operands of + are "+KindOf(l)+" and "+KindOf(r))
	case "-", "*", "/", "%", "**", "<", "<=", ">", ">=":
		a := m.num(e, l, "left")
		b := m.num(e, r, "right")
		switch e.Op {
		case "-":
			return a - b
		case "*":
			return a * b
		case "/":
			if b == 0 {
				m.fail("div-zero", e.Line, "division by zero")
			}
			return a / b
		case "%":
			if b == 0 {
				m.fail("div-zero", e.Line, "modulo by zero")
			}
			return math.Mod(a, b)
		case "**":
			return math.Pow(a, b)
		case "<":
			return a < b
		case "<=":
			return a <= b
		case ">":
			return a > b
		case ">=":
			return a >= b
		}
	case "==", "!=":
		eq := Equal(l, r)
		if eq == nil {
			m.unspec("equality of two distinct " + KindOf(l) + " values")
		}
		if e.Op == "!=" {
			return !*eq
		}
		return *eq
	case "&", "|", "^", "<<", ">>":
		a := m.int64of(e, l, "left")
		b := m.int64of(e, r, "right")
		switch e.Op {
		case "&":
			return float64(a & b)
		case "|":
			return float64(a | b)
		case "^":
			return float64(a ^ b)
		case "<<":
			if b < 0 {
				m.fail("neg-shift", e.Line, "negative shift count")
			}
			if b >= 64 {
				return float64(0)
			}
			return float64(a << uint(b))
		case ">>":
			if b < 0 {
				m.fail("neg-shift", e.Line, "negative shift count")
			}
			if b >= 64 {
				if a < 0 {
					return float64(-1)
				}
				return float64(0)
			}
			return float64(a >> uint(b))
		}
	}
	panic("model: binary " + e.Op)
}

// ---------------------------------------------------------------- calls

func (m *Machine) call(e *N, sc *Scope) Value {
	callee := m.eval(e.A[0], sc)
	args := e.A[1:]
	switch f := callee.(type) {
	case *FnV:
		if len(args) != len(f.Decl.Names) {
			m.fail("arity", e.Line, fmt.Sprintf("%d arguments for %d parameters", len(args), len(f.Decl.Names)))
		}
		vals := make([]Value, len(args))
		for i, a := range args {
			vals[i] = m.eval(a, sc)
		}
		m.depth++
		if m.depth > 3000 {
			m.unspec("recursion deeper than the model follows")
		}
		act := m.newScope(f.Env)
		act.Vars[f.Decl.S] = f
		act.Seq = map[string]int{}
		for i, p := range f.Decl.Names {
			if _, dup := act.Vars[p]; dup && p != f.Decl.S {
				m.unspec("duplicate parameter names")
			}
			act.Vars[p] = vals[i]
		}
		var ret Value
		for _, s := range f.Decl.A {
			c := m.exec(s, act)
			if c == ctlReturn {
				ret = m.retVal
				break
			}
			if c != ctlNone {
				// a break / continue that reaches the end of a function body without a loop around it:
				// either it is refused (a runtime error at that statement) or the call simply ends and
				// yields nil; the model follows the second reading and records the line so that the
				// first is accepted too
				m.res.AltErrorLines = append(m.res.AltErrorLines, m.ctlLine)
				ret = nil
				break
			}
		}
		m.depth--
		return ret
	case *BuiltinV:
		if fixed, ok := builtinArity[f.Name]; ok && fixed >= 0 && len(args) != fixed {
			m.fail("arity", e.Line, "wrong argument count for "+f.Name)
		}
		vals := make([]Value, len(args))
		for i, a := range args {
			vals[i] = m.eval(a, sc)
		}
		return m.builtin(e, f.Name, vals)
	}
	m.fail("not-callable", e.Line, "call of "+KindOf(callee))
	return nil
}

// builtinArity: fixed argument count enforced before the arguments are
// evaluated; -1 = checked by the built-in itself after evaluation.
var builtinArity = map[string]int{
	BiClock: 0, BiLen: 1, BiAppend: -1, BiRemove: 2, BiDelete: 2, BiKeys: 1, BiValues: 1,
	BiAbs: 1, BiSqrt: 1, BiPow: 2, BiSin: 1, BiCos: 1, BiTan: 1, BiMin: -1, BiMax: -1, BiRound: 1, BiInput: -1, BiInputLatin: -1,
}

func (m *Machine) bnum(e *N, name string, v Value) float64 {
	f, ok := v.(float64)
	if !ok {
		if s, isStr := v.(string); isStr && looksNumeric(s) {
			m.unspec("numeric-looking string passed to a math built-in")
		}
		m.fail("builtin", e.Line, name+": argument is "+KindOf(v))
	}
	return f
}

func (m *Machine) builtin(e *N, name string, a []Value) Value {
	bad := func(why string) { m.fail("builtin", e.Line, name+": "+why) }
	switch name {
	case BiClock:
		return m.Clock
	case BiLen:
		arr, ok := a[0].(*ArrV)
		if !ok {
			bad("not an array")
		}
		return float64(len(arr.E))
	case BiAppend:
		if len(a) < 2 {
			bad("needs an array and at least one element")
		}
		arr, ok := a[0].(*ArrV)
		if !ok {
			bad("not an array")
		}
		n := &ArrV{E: append(append([]Value{}, arr.E...), a[1:]...)}
		return n
	case BiRemove:
		arr, ok := a[0].(*ArrV)
		if !ok {
			bad("not an array")
		}
		f, ok := a[1].(float64)
		if !ok {
			if s, isStr := a[1].(string); isStr && looksNumeric(s) {
				m.unspec("numeric-looking string used as index")
			}
			bad("index is " + KindOf(a[1]))
		}
		if f != math.Trunc(f) || math.IsNaN(f) || math.IsInf(f, 0) {
			bad("fractional index")
		}
		if f < 0 || f >= float64(len(arr.E)) {
			bad("index out of range")
		}
		k := int(f)
		n := &ArrV{E: append(append([]Value{}, arr.E[:k]...), arr.E[k+1:]...)}
		return n
	case BiDelete:
		o, ok := a[0].(*ObjV)
		if !ok {
			bad("not an object")
		}
		k, ok := a[1].(string)
		if !ok {
			bad("key is " + KindOf(a[1]))
		}
		if _, has := o.M[k]; !has {
			bad("no such key")
		}
		delete(o.M, k)
		for i, kk := range o.Keys {
			if kk == k {
				o.Keys = append(o.Keys[:i:i], o.Keys[i+1:]...)
				break
			}
		}
		return unspecValue{"result of " + BiDelete}
	case BiKeys, BiValues:
		o, ok := a[0].(*ObjV)
		if !ok {
			bad("not an object")
		}
		// canonical (sorted) order; the oracle treats the order as a
		// permutation, only mutual consistency and stability are required
		ks := append([]string{}, o.Keys...)
		sort.Strings(ks)
		out := &ArrV{}
		for _, k := range ks {
			if name == BiKeys {
				out.E = append(out.E, k)
			} else {
				out.E = append(out.E, o.M[k])
			}
		}
		return out
	case BiAbs:
		return math.Abs(m.bnum(e, name, a[0]))
	case BiSqrt:
		return math.Sqrt(m.bnum(e, name, a[0]))
	case BiSin:
		return math.Sin(m.bnum(e, name, a[0]))
	case BiCos:
		return math.Cos(m.bnum(e, name, a[0]))
	case BiTan:
		return math.Tan(m.bnum(e, name, a[0]))
	case BiRound:
		return RoundHalfAway(m.bnum(e, name, a[0]))
	case BiPow:
		return math.Pow(m.bnum(e, name, a[0]), m.bnum(e, name, a[1]))
	case BiMin, BiMax:
		if len(a) == 0 {
			bad("nothing to compare")
		}
		list := a
		if arr, ok := a[0].(*ArrV); ok && len(a) == 1 {
			list = arr.E
		}
		if len(list) == 0 {
			bad("nothing to compare")
		}
		// every argument must be a number whatever the others are: the kinds are checked first
		nums := make([]float64, len(list))
		for i, v := range list {
			nums[i] = m.bnum(e, name, v)
		}
		best := nums[0]
		for _, f := range nums[1:] {
			if math.IsNaN(f) || math.IsNaN(best) {
				m.unspec("min/max with NaN")
			}
			if f == 0 && best == 0 && math.Signbit(f) != math.Signbit(best) {
				m.unspec("min/max over mixed signed zeros")
			}
			if (name == BiMin && f < best) || (name == BiMax && f > best) {
				best = f
			}
		}
		return best
	case BiInput, BiInputLatin:
		if len(a) > 1 {
			bad("at most one argument")
		}
		if len(a) == 1 {
			p, ok := a[0].(string)
			if !ok {
				bad("prompt is " + KindOf(a[0]))
			}
			m.res.Events = append(m.res.Events, Event{Text: p, Prompt: true})
		}
		if m.res.InputUse >= len(m.Stdin) {
			m.unspec("ইনপুট with no complete line left on stdin")
		}
		line := m.Stdin[m.res.InputUse]
		m.res.InputUse++
		return strings.TrimSpace(line)
	}
	panic("model: builtin " + name)
}

type unspecValue struct{ why string }

// RoundHalfAway rounds to the nearest integer, halves away from zero.
func RoundHalfAway(f float64) float64 {
	if math.IsNaN(f) || math.IsInf(f, 0) {
		return f
	}
	t := math.Trunc(f)
	if math.Abs(f-t) >= 0.5 {
		return t + math.Copysign(1, f)
	}
	if t == 0 {
		return math.Copysign(0, f)
	}
	return t
}

// ---------------------------------------------------------------- text

// FormatNum is the text of a number as the implementation is observed to
// print it (shortest round-trip digits, %g layout).  Oracles that compare
// stdout fall back to numeric comparison, so only the digits are normative.
func FormatNum(f float64) string {
	switch {
	case math.IsInf(f, 1):
		return "+Inf"
	case math.IsInf(f, -1):
		return "-Inf"
	case math.IsNaN(f):
		return "NaN"
	}
	return strconv.FormatFloat(f, 'g', -1, 64)
}

// Text is the model text of a value as দেখাও shows it.  Containers use the
// observed concrete syntax ([a b], map[k:v]); comparisons are tolerant of it.
func Text(v Value) string { return norm.NFC.String(text(v, true, map[interface{}]bool{})) }

func text(v Value, top bool, seen map[interface{}]bool) string {
	switch x := v.(type) {
	case nil:
		if top {
			return "nil"
		}
		return "<nil>"
	case bool:
		if x {
			return "true"
		}
		return "false"
	case float64:
		return FormatNum(x)
	case string:
		return x
	case *ArrV:
		if seen[x] {
			return "[...]"
		}
		seen[x] = true
		defer delete(seen, x)
		parts := make([]string, len(x.E))
		for i, e := range x.E {
			parts[i] = text(e, false, seen)
		}
		return "[" + strings.Join(parts, " ") + "]"
	case *ObjV:
		if seen[x] {
			return "map[...]"
		}
		seen[x] = true
		defer delete(seen, x)
		ks := append([]string{}, x.Keys...)
		sort.Strings(ks)
		parts := make([]string, len(ks))
		for i, k := range ks {
			parts[i] = k + ":" + text(x.M[k], false, seen)
		}
		return "map[" + strings.Join(parts, " ") + "]"
	case *FnV:
		return "<function " + x.Decl.S + ">"
	case *BuiltinV:
		return "<native fn>"
	case unspecValue:
		return "<unspecified>"
	}
	return "?"
}

func contains(v Value, pred func(Value) bool, seen map[interface{}]bool) bool {
	if pred(v) {
		return true
	}
	switch x := v.(type) {
	case *ArrV:
		if seen[x] {
			return false
		}
		seen[x] = true
		for _, e := range x.E {
			if contains(e, pred, seen) {
				return true
			}
		}
	case *ObjV:
		if seen[x] {
			return false
		}
		seen[x] = true
		for _, e := range x.M {
			if contains(e, pred, seen) {
				return true
			}
		}
	}
	return false
}

func (m *Machine) printEvent(v Value) Event {
	if contains(v, func(x Value) bool { _, u := x.(unspecValue); return u }, map[interface{}]bool{}) {
		m.unspec("printing an unspecified value")
	}
	return Event{
		Text:   Text(v),
		HasObj: contains(v, func(x Value) bool { _, o := x.(*ObjV); return o }, map[interface{}]bool{}),
		HasRef: contains(v, func(x Value) bool {
			switch x.(type) {
			case *FnV, *BuiltinV:
				return true
			}
			return false
		}, map[interface{}]bool{}),
		V: v,
	}
}

// Package model is the reference model: an independent, deliberately boring
// implementation of what the properties state (DESIGN.md Appendix A).
package model

// Keyword and built-in spellings, by code point (grammer.txt / README.md).
// Note U+09DF in KwElse and KwContinue: the NFC spellings are *identifiers*.
const (
	KwFun      = "\u09AB\u09BE\u0982\u09B6\u09A8" // ফাংশন
	KwVar      = "\u09A7\u09B0\u09BF" // ধরি
	KwFor      = "\u09AB\u09B0" // ফর
	KwIf       = "\u09AF\u09A6\u09BF" // যদি
	KwElse     = "\u09A8\u09BE\u09B9\u09DF" // নাহয়
	KwWhile    = "\u09AF\u09A4\u0995\u09CD\u09B7\u09A3" // যতক্ষণ
	KwTrue     = "\u09B8\u09A4\u09CD\u09AF" // সত্য
	KwFalse    = "\u09AE\u09BF\u09A5\u09CD\u09AF\u09BE" // মিথ্যা
	KwNil      = "nil"
	KwPrint    = "\u09A6\u09C7\u0996\u09BE\u0993" // দেখাও
	KwReturn   = "\u09AB\u09C7\u09B0\u09A4" // ফেরত
	KwBreak    = "\u09A5\u09BE\u09AE\u09CB" // থামো
	KwContinue = "\u099A\u09BE\u09B2\u09BF\u09DF\u09C7_\u09AF\u09BE\u0993" // চালিয়ে_যাও
	KwAnd      = "\u098F\u09AC\u0982" // এবং
	KwOr       = "\u09AC\u09BE" // বা
)

// Keywords maps spelling to model token kind.
var Keywords = map[string]string{
	KwFun: "FUN", KwVar: "VAR", KwFor: "FOR", KwIf: "IF", KwElse: "ELSE", KwWhile: "WHILE",
	KwTrue: "TRUE", KwFalse: "FALSE", KwNil: "NIL", KwPrint: "PRINT", KwReturn: "RETURN",
	KwBreak: "BREAK", KwContinue: "CONTINUE", KwAnd: "LOGICAL_AND", KwOr: "LOGICAL_OR",
}

// Built-in function names.
const (
	BiClock  = "\u0995\u09CD\u09B2\u0995" // ক্লক
	BiLen    = "\u09B2\u09C7\u09A8" // লেন
	BiAppend = "\u098F\u09A1" // এড
	BiRemove = "\u09B0\u09BF\u09AE\u09C1\u09AD" // রিমুভ
	BiDelete = "\u0995\u09BF_\u09B0\u09BF\u09AE\u09C1\u09AD" // কি_রিমুভ
	BiKeys   = "\u0985\u09AC\u09CD\u099C\u09C7\u0995\u09CD\u099F_\u0995\u09BF" // অব্জেক্ট_কি
	BiValues = "\u0985\u09AC\u09CD\u099C\u09C7\u0995\u09CD\u099F_\u09AE\u09BE\u09A8" // অব্জেক্ট_মান
	BiAbs    = "\u09AA\u09B0\u09AE\u09AE\u09BE\u09A8" // পরমমান
	BiSqrt   = "\u09AC\u09B0\u09CD\u0997\u09AE\u09C2\u09B2" // বর্গমূল
	BiPow    = "\u0998\u09BE\u09A4" // ঘাত
	BiSin    = "\u09B8\u09BE\u0987\u09A8" // সাইন
	BiCos    = "\u0995\u09B8\u09BE\u0987\u09A8" // কসাইন
	BiTan    = "\u099F\u09CD\u09AF\u09BE\u09A8" // ট্যান
	BiMin    = "\u09B8\u09B0\u09CD\u09AC\u09A8\u09BF\u09AE\u09CD\u09A8" // সর্বনিম্ন
	BiMax    = "\u09B8\u09B0\u09CD\u09AC\u09CB\u099A\u09CD\u099A" // সর্বোচ্চ
	BiRound  = "\u09B0\u09BE\u0989\u09A8\u09CD\u09A1" // রাউন্ড
	BiInput  = "\u0987\u09A8\u09AA\u09C1\u099F" // ইনপুট
)

// BiInputLatin is the Latin alias of ইনপুট (reserved by the parser).
const BiInputLatin = "input"

// Builtins lists the built-in names (barred as declared names).
var Builtins = []string{BiClock, BiLen, BiAppend, BiRemove, BiDelete, BiKeys, BiValues, BiAbs, BiSqrt,
	BiPow, BiSin, BiCos, BiTan, BiMin, BiMax, BiRound, BiInput, BiInputLatin}

func IsBuiltin(name string) bool {
	for _, b := range Builtins {
		if b == name {
			return true
		}
	}
	return false
}

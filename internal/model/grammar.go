package model

import (
	"fmt"
	"regexp"
	"strings"
)

// Grammar is a plain context-free grammar over model token kinds.
type Grammar struct {
	Start    int
	Names    []string       // nonterminal names
	index    map[string]int // name -> nonterminal id
	Rules    []Rule
	ByLHS    [][]int // nonterminal -> rule indexes
	Nullable []bool
	Terms    []string // terminal kinds in use
}

// Sym: T>=0 terminal index into Grammar.Terms when IsT, else nonterminal id.
type Sym struct {
	IsT bool
	ID  int
}

type Rule struct {
	LHS int
	RHS []Sym
}

func (g *Grammar) nt(name string) int {
	if id, ok := g.index[name]; ok {
		return id
	}
	id := len(g.Names)
	g.index[name] = id
	g.Names = append(g.Names, name)
	g.ByLHS = append(g.ByLHS, nil)
	return id
}

func (g *Grammar) term(kind string) int {
	for i, t := range g.Terms {
		if t == kind {
			return i
		}
	}
	g.Terms = append(g.Terms, kind)
	return len(g.Terms) - 1
}

func (g *Grammar) add(lhs int, rhs []Sym) {
	g.Rules = append(g.Rules, Rule{lhs, rhs})
	g.ByLHS[lhs] = append(g.ByLHS[lhs], len(g.Rules)-1)
}

// TermIndex returns the terminal index of a token kind (-1 if unused).
func (g *Grammar) TermIndex(kind string) int {
	for i, t := range g.Terms {
		if t == kind {
			return i
		}
	}
	return -1
}

// ---- EBNF of grammer.txt

type ebnf struct {
	kind string // seq alt star opt term nonterm
	kids []*ebnf
	text string
}

var ebnfTok = regexp.MustCompile(`"[^"]*"|→|\||\(|\)|\*|\?|;|[A-Za-z_]+`)

type ebnfParser struct {
	toks []string
	pos  int
}

func (p *ebnfParser) peek() string {
	if p.pos < len(p.toks) {
		return p.toks[p.pos]
	}
	return ""
}

func (p *ebnfParser) alt() *ebnf {
	a := &ebnf{kind: "alt", kids: []*ebnf{p.seq()}}
	for p.peek() == "|" {
		p.pos++
		a.kids = append(a.kids, p.seq())
	}
	if len(a.kids) == 1 {
		return a.kids[0]
	}
	return a
}

func (p *ebnfParser) seq() *ebnf {
	s := &ebnf{kind: "seq"}
	for {
		t := p.peek()
		if t == "" || t == "|" || t == ")" || t == ";" {
			break
		}
		var item *ebnf
		switch {
		case t == "(":
			p.pos++
			item = p.alt()
			if p.peek() != ")" {
				panic("grammar: expected )")
			}
			p.pos++
		case strings.HasPrefix(t, `"`):
			p.pos++
			item = &ebnf{kind: "term", text: t[1 : len(t)-1]}
		default:
			p.pos++
			item = &ebnf{kind: "nonterm", text: t}
		}
		for p.peek() == "*" || p.peek() == "?" {
			k := "star"
			if p.peek() == "?" {
				k = "opt"
			}
			p.pos++
			item = &ebnf{kind: k, kids: []*ebnf{item}}
		}
		s.kids = append(s.kids, item)
	}
	return s
}

// ParseEBNF reads the বাংলা section of grammer.txt into named EBNF rules.
func ParseEBNF(text string) (map[string]*ebnf, []string, error) {
	i := strings.Index(text, "বাংলা")
	if i < 0 {
		return nil, nil, fmt.Errorf("no বাংলা section in the grammar file")
	}
	text = text[i:]
	if j := strings.Index(text, "\n"); j >= 0 {
		text = text[j:]
	}
	toks := ebnfTok.FindAllString(text, -1)
	rules := map[string]*ebnf{}
	var order []string
	p := &ebnfParser{toks: toks}
	defer func() { recover() }()
	for p.pos < len(p.toks) {
		name := p.toks[p.pos]
		p.pos++
		if p.peek() != "→" {
			return nil, nil, fmt.Errorf("grammar: expected → after %s", name)
		}
		p.pos++
		rules[name] = p.alt()
		order = append(order, name)
		if p.peek() != ";" {
			return nil, nil, fmt.Errorf("grammar: expected ; after rule %s", name)
		}
		p.pos++
	}
	return rules, order, nil
}

// terminal kind of a quoted grammar terminal
func termKind(text string) (string, error) {
	if text == "print" {
		// amendment: the grammar file writes the print keyword as "print"
		// (README.md: printStmt → "দেখাও" expression ";")
		return "PRINT", nil
	}
	toks, errs := Lex(text)
	if len(errs) != 0 || len(toks) != 2 {
		return "", fmt.Errorf("grammar terminal %q is not a single token", text)
	}
	return toks[0].Kind, nil
}

// BuildGrammar builds the amended CFG (DESIGN §2.3).  trailingComma selects
// G′ (object literals may end in a comma).
func BuildGrammar(text string, trailingComma bool) (*Grammar, error) {
	rules, order, err := ParseEBNF(text)
	if err != nil {
		return nil, err
	}
	if len(order) < 30 {
		return nil, fmt.Errorf("grammar: only %d rules extracted", len(order))
	}
	// ---- amendments, as data -------------------------------------------
	T := func(s string) *ebnf { return &ebnf{kind: "term", text: s} }
	NT := func(s string) *ebnf { return &ebnf{kind: "nonterm", text: s} }
	SEQ := func(k ...*ebnf) *ebnf { return &ebnf{kind: "seq", kids: k} }
	ALT := func(k ...*ebnf) *ebnf { return &ebnf{kind: "alt", kids: k} }
	STAR := func(k *ebnf) *ebnf { return &ebnf{kind: "star", kids: []*ebnf{k}} }
	OPT := func(k *ebnf) *ebnf { return &ebnf{kind: "opt", kids: []*ebnf{k}} }
	// call = primary followed by any chain of ( args ), [ expr ], .IDENT
	suffix := ALT(SEQ(T("("), OPT(NT("arguments")), T(")")), SEQ(T("["), NT("expression"), T("]")), SEQ(T("."), NT("IDENTIFIER")))
	rules["suffix"] = suffix
	rules["call"] = SEQ(NT("primary"), STAR(NT("suffix")))
	delete(rules, "arrayAccess")
	delete(rules, "propertyAccess")
	// assignment targets: identifier, or a chain ending in [..] / .name
	rules["target"] = ALT(NT("IDENTIFIER"),
		SEQ(NT("call"), T("["), NT("expression"), T("]")),
		SEQ(NT("call"), T("."), NT("IDENTIFIER")))
	rules["assignment"] = ALT(SEQ(NT("target"), T("="), NT("assignment")), NT("logic_or"))
	// IDENTIFIER = plain or reserved (built-in) name; declared names must be plain
	rules["IDENTIFIER"] = ALT(NT("IDENT"), NT("RIDENT"))
	rules["variable"] = SEQ(NT("IDENT"), OPT(SEQ(T("="), NT("expression"))))
	rules["function"] = SEQ(NT("IDENT"), T("("), OPT(NT("parameters")), T(")"), NT("block"))
	if trailingComma {
		rules["objectLiteral"] = SEQ(T("{"), OPT(SEQ(NT("property"), STAR(SEQ(T(","), NT("property"))), OPT(T(",")))), T("}"))
	}
	// an expression statement may not start with '{': primed copies of the
	// rules on the leftmost spine, with objectLiteral removed from primary
	spine := []string{"expression", "assignment", "target", "logic_or", "logic_and", "bitwise_or", "bitwise_xor", "bitwise_and",
		"equality", "comparison", "shift", "term", "factor", "power", "unary", "call", "primary"}
	isSpine := map[string]bool{}
	for _, s := range spine {
		if _, ok := rules[s]; !ok {
			return nil, fmt.Errorf("grammar: rule %s missing", s)
		}
		isSpine[s] = true
	}
	var primeFirst func(e *ebnf) *ebnf
	primeFirst = func(e *ebnf) *ebnf {
		switch e.kind {
		case "nonterm":
			if isSpine[e.text] {
				return NT(e.text + "'")
			}
			if e.text == "objectLiteral" {
				return nil // removed
			}
			return e
		case "term":
			return e
		case "seq":
			if len(e.kids) == 0 {
				return e
			}
			f := primeFirst(e.kids[0])
			if f == nil {
				return nil
			}
			return SEQ(append([]*ebnf{f}, e.kids[1:]...)...)
		case "alt":
			var ks []*ebnf
			for _, k := range e.kids {
				if pk := primeFirst(k); pk != nil {
					ks = append(ks, pk)
				}
			}
			return ALT(ks...)
		case "star", "opt":
			panic("grammar: nullable first symbol on the spine")
		}
		return e
	}
	for _, s := range spine {
		rules[s+"'"] = primeFirst(rules[s])
	}
	// statement → exprStmt uses the primed expression; the for-initialiser keeps the plain one
	rules["exprStmtS"] = SEQ(NT("expression'"), T(";"))
	var replaceIn func(e *ebnf, from, to string) *ebnf
	replaceIn = func(e *ebnf, from, to string) *ebnf {
		if e.kind == "nonterm" && e.text == from {
			return NT(to)
		}
		c := &ebnf{kind: e.kind, text: e.text}
		for _, k := range e.kids {
			c.kids = append(c.kids, replaceIn(k, from, to))
		}
		return c
	}
	rules["statement"] = replaceIn(rules["statement"], "exprStmt", "exprStmtS")

	// ---- EBNF -> CFG ---------------------------------------------------
	g := &Grammar{index: map[string]int{}}
	fresh := 0
	var conv func(e *ebnf) []Sym
	var define func(name string, e *ebnf)
	define = func(name string, e *ebnf) {
		lhs := g.nt(name)
		alts := []*ebnf{e}
		if e.kind == "alt" {
			alts = e.kids
		}
		for _, a := range alts {
			g.add(lhs, conv(a))
		}
	}
	conv = func(e *ebnf) []Sym {
		switch e.kind {
		case "seq":
			var out []Sym
			for _, k := range e.kids {
				out = append(out, conv(k)...)
			}
			return out
		case "term":
			k, err2 := termKind(e.text)
			if err2 != nil {
				err = err2
				return nil
			}
			return []Sym{{true, g.term(k)}}
		case "nonterm":
			switch e.text {
			case "NUMBER", "STRING", "EOF", "IDENT", "RIDENT":
				return []Sym{{true, g.term(e.text)}}
			}
			return []Sym{{false, g.nt(e.text)}}
		case "alt":
			fresh++
			n := fmt.Sprintf("_alt%d", fresh)
			define(n, e)
			return []Sym{{false, g.nt(n)}}
		case "opt":
			fresh++
			n := fmt.Sprintf("_opt%d", fresh)
			lhs := g.nt(n)
			g.add(lhs, nil)
			g.add(lhs, conv(e.kids[0]))
			return []Sym{{false, lhs}}
		case "star":
			fresh++
			n := fmt.Sprintf("_star%d", fresh)
			lhs := g.nt(n)
			g.add(lhs, nil)
			g.add(lhs, append(conv(e.kids[0]), Sym{false, lhs}))
			return []Sym{{false, lhs}}
		}
		panic("grammar: bad ebnf node " + e.kind)
	}
	names := make([]string, 0, len(rules))
	names = append(names, "program")
	for n := range rules {
		if n != "program" {
			names = append(names, n)
		}
	}
	// deterministic order
	for i := 1; i < len(names); i++ {
		for j := i + 1; j < len(names); j++ {
			if names[j] < names[i] {
				names[i], names[j] = names[j], names[i]
			}
		}
	}
	for _, n := range names {
		define(n, rules[n])
	}
	if err != nil {
		return nil, err
	}
	g.Start = g.nt("program")
	for id, rs := range g.ByLHS {
		if len(rs) == 0 {
			return nil, fmt.Errorf("grammar: nonterminal %s has no rule", g.Names[id])
		}
	}
	// nullable
	g.Nullable = make([]bool, len(g.Names))
	for changed := true; changed; {
		changed = false
		for _, r := range g.Rules {
			if g.Nullable[r.LHS] {
				continue
			}
			all := true
			for _, s := range r.RHS {
				if s.IsT || !g.Nullable[s.ID] {
					all = false
					break
				}
			}
			if all {
				g.Nullable[r.LHS] = true
				changed = true
			}
		}
	}
	return g, nil
}

// LadderFromGrammar extracts the binary-operator levels (loosest first) from
// the rule chain logic_or → … → power, for cross-checking BinLevel.
func LadderFromGrammar(text string) ([][]string, error) {
	rules, _, err := ParseEBNF(text)
	if err != nil {
		return nil, err
	}
	var out [][]string
	cur := "logic_or"
	for cur != "unary" {
		r, ok := rules[cur]
		if !ok || r.kind != "seq" || len(r.kids) != 2 || r.kids[0].kind != "nonterm" || r.kids[1].kind != "star" {
			return nil, fmt.Errorf("grammar: rule %s is not `next ( ops next )*`", cur)
		}
		next := r.kids[0].text
		grp := r.kids[1].kids[0]
		if grp.kind != "seq" || len(grp.kids) != 2 || grp.kids[1].kind != "nonterm" || grp.kids[1].text != next {
			return nil, fmt.Errorf("grammar: rule %s has an unexpected repetition", cur)
		}
		var ops []string
		switch grp.kids[0].kind {
		case "term":
			ops = []string{grp.kids[0].text}
		case "alt":
			for _, k := range grp.kids[0].kids {
				if k.kind == "seq" && len(k.kids) == 1 {
					k = k.kids[0]
				}
				ops = append(ops, k.text)
			}
		}
		out = append(out, ops)
		cur = next
	}
	return out, nil
}

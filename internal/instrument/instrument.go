// Package instrument derives, from the current working tree of /repo, the
// `go build -overlay` map that hands every source of nondeterminism to the
// explorer (DESIGN.md §2.1).  /repo itself is never written.
package instrument

import (
	"bytes"
	"encoding/json"
	"fmt"
	"go/ast"
	"go/printer"
	"go/token"
	"go/types"
	"os"
	"path/filepath"
	"sort"
	"strconv"
	"strings"

	"golang.org/x/tools/go/ast/astutil"
	"golang.org/x/tools/go/packages"
)

const (
	Module    = "github.com/ah-naf/borno"
	RtPath    = Module + "/verifrt"
	MainPath  = Module + "/verifmain"
	ResetPath = Module + "/verifreset"
)

type Site struct {
	ID   int    `json:"id"`
	Kind string `json:"kind"`
	Pos  string `json:"pos"`
}

type Result struct {
	OverlayFile string         `json:"overlay_file"`
	Sites       []Site         `json:"sites"`
	Unowned     []string       `json:"unowned"`
	FileAPI     bool           `json:"file_api"` // files are reached through an API that is not virtualised: the workers materialise them
	Counts      map[string]int `json:"counts"`
	Packages    []string       `json:"packages"`
}

// Run instruments the repository at repoDir (module Module), resolving it
// through the harness module at verifDir, writing scratch files to outDir.
func Run(repoDir, verifDir, outDir, rtSource string) (*Result, error) {
	res := &Result{Counts: map[string]int{}}
	cfg := &packages.Config{
		Mode: packages.NeedName | packages.NeedFiles | packages.NeedSyntax | packages.NeedTypes |
			packages.NeedTypesInfo | packages.NeedImports | packages.NeedDeps,
		Dir:        verifDir,
		BuildFlags: []string{"-tags=verif"},
		Env:        append(os.Environ(), "GOFLAGS=-mod=mod", "GOPROXY=off", "GOSUMDB=off", "GOTOOLCHAIN=local"),
	}
	pkgs, err := packages.Load(cfg, Module+"/...")
	if err != nil {
		return nil, fmt.Errorf("load: %w", err)
	}
	sort.Slice(pkgs, func(i, j int) bool { return pkgs[i].PkgPath < pkgs[j].PkgPath })
	for _, p := range pkgs {
		for _, e := range p.Errors {
			return nil, fmt.Errorf("package %s: %v", p.PkgPath, e)
		}
	}
	overlay := map[string]string{}
	var libPkgs []string // importable (non-main) packages, with VerifReset
	siteID := 0
	fileNo := 0

	for _, p := range pkgs {
		if len(p.GoFiles) == 0 {
			continue
		}
		isMain := p.Name == "main"
		pkgDirOut := filepath.Join(outDir, "src", strings.TrimPrefix(strings.TrimPrefix(p.PkgPath, Module), "/"))
		if isMain {
			pkgDirOut = filepath.Join(outDir, "src", "verifmain")
		}
		if err := os.MkdirAll(pkgDirOut, 0o755); err != nil {
			return nil, err
		}
		res.Packages = append(res.Packages, p.PkgPath)

		// which file does each package-level var initializer live in?
		fileOf := func(pos token.Pos) *ast.File {
			for _, f := range p.Syntax {
				if f.Pos() <= pos && pos <= f.End() {
					return f
				}
			}
			return nil
		}
		extra := map[*ast.File][]string{} // source text appended to each file
		var resetCalls []string

		// zero the initializer-less vars first
		for _, f := range p.Syntax {
			for _, d := range f.Decls {
				gd, ok := d.(*ast.GenDecl)
				if !ok || gd.Tok != token.VAR {
					continue
				}
				for _, s := range gd.Specs {
					vs := s.(*ast.ValueSpec)
					if len(vs.Values) != 0 || vs.Type == nil {
						continue
					}
					for _, n := range vs.Names {
						if n.Name == "_" {
							continue
						}
						fn := fmt.Sprintf("verifResetZ_%d", fileNo)
						fileNo++
						var tb bytes.Buffer
						printer.Fprint(&tb, p.Fset, vs.Type)
						extra[f] = append(extra[f], fmt.Sprintf("func %s() { var z %s; %s = z }\n", fn, tb.String(), n.Name))
						resetCalls = append(resetCalls, fn+"()")
						res.Counts["globals_reset"]++
					}
				}
			}
		}
		for _, in := range p.TypesInfo.InitOrder {
			f := fileOf(in.Rhs.Pos())
			if f == nil {
				continue
			}
			var lhs []string
			blankOnly := true
			for _, v := range in.Lhs {
				lhs = append(lhs, v.Name())
				if v.Name() != "_" {
					blankOnly = false
				}
			}
			if blankOnly {
				continue
			}
			fn := fmt.Sprintf("verifResetI_%d", fileNo)
			fileNo++
			// we cannot print the rewritten Rhs before the rewrite ran, so
			// record a marker and fill it in after rewriting the file.
			extra[f] = append(extra[f], fmt.Sprintf("func %s() { %s = \x00RHS%d\x00 }\n", fn, strings.Join(lhs, ", "), len(rhsExprs)))
			rhsExprs = append(rhsExprs, in.Rhs)
			resetCalls = append(resetCalls, fn+"()")
			res.Counts["globals_reset"] += len(lhs)
		}

		for i, f := range p.Syntax {
			srcPath := p.GoFiles[i]
			usedRt := false
			rel := func(pos token.Pos) string {
				ps := p.Fset.Position(pos)
				r, _ := filepath.Rel(repoDir, ps.Filename)
				return fmt.Sprintf("%s:%d", r, ps.Line)
			}
			// inventory of what cannot be owned
			for _, im := range f.Imports {
				path, _ := strconv.Unquote(im.Path.Value)
				switch path {
				case "math/rand", "math/rand/v2", "crypto/rand", "unsafe", "runtime", "os/signal", "syscall", "net", "os/exec", "sync", "sync/atomic", "reflect":
					res.Unowned = append(res.Unowned, fmt.Sprintf("%s imports %s", rel(im.Pos()), path))
				}
			}
			astutil.Apply(f, func(c *astutil.Cursor) bool {
				switch n := c.Node().(type) {
				case *ast.GoStmt:
					res.Unowned = append(res.Unowned, rel(n.Pos())+" go statement")
				case *ast.SelectStmt:
					res.Unowned = append(res.Unowned, rel(n.Pos())+" select statement")
				case *ast.BasicLit:
					if n.Kind == token.STRING && strings.Contains(n.Value, "%p") {
						res.Unowned = append(res.Unowned, rel(n.Pos())+" %p verb")
					}
				case *ast.SelectorExpr:
					if id, ok := n.X.(*ast.Ident); ok {
						if pn, ok := p.TypesInfo.Uses[id].(*types.PkgName); ok {
							full := pn.Imported().Path() + "." + n.Sel.Name
							repl := ""
							switch full {
							case "time.Now":
								repl = "Now"
							case "os.Stdin":
								repl = "Stdin"
							case "os.Exit":
								repl = "Exit"
							case "os.Args":
								repl = "Args"
							case "os.ReadFile":
								repl = "ReadFile"
							case "os.Open", "os.OpenFile", "os.Stat", "os.Lstat", "os.ReadDir", "io/ioutil.ReadFile", "io/ioutil.ReadAll", "os.DirFS":
								res.Unowned = append(res.Unowned, rel(n.Pos())+" uses "+full)
								res.FileAPI = true
							case "os.Getpid", "os.Getppid", "os.Getenv", "os.Hostname", "os.Environ", "time.Since", "time.Sleep", "time.After", "time.Tick", "os.Create", "os.Getwd":
								res.Unowned = append(res.Unowned, rel(n.Pos())+" uses "+full)
							}
							if repl != "" {
								c.Replace(&ast.SelectorExpr{X: ast.NewIdent("verifrt"), Sel: ast.NewIdent(repl)})
								res.Counts["rewrite_"+full]++
								usedRt = true
								return false
							}
						}
					}
				}
				return true
			}, func(c *astutil.Cursor) bool {
				// post-order: map ranges and fuel
				switch n := c.Node().(type) {
				case *ast.RangeStmt:
					if t := p.TypesInfo.TypeOf(n.X); t != nil {
						if _, ok := t.Underlying().(*types.Map); ok {
							if !pureExpr(n.X) {
								res.Unowned = append(res.Unowned, rel(n.Pos())+" map range over an expression with calls")
							} else if _, labeled := c.Parent().(*ast.LabeledStmt); labeled && false {
							} else {
								rewriteMapRange(n, siteID)
								res.Sites = append(res.Sites, Site{ID: siteID, Kind: "map-range", Pos: rel(n.Pos())})
								siteID++
								res.Counts["map_ranges"]++
								usedRt = true
							}
						}
					}
					n.Body.List = append([]ast.Stmt{fuelCall()}, n.Body.List...)
					res.Counts["fuel_points"]++
					usedRt = true
				case *ast.ForStmt:
					n.Body.List = append([]ast.Stmt{fuelCall()}, n.Body.List...)
					res.Counts["fuel_points"]++
					usedRt = true
				case *ast.FuncDecl:
					if n.Body != nil {
						if hook := defineHook(n, p.TypesInfo); hook != nil {
							// a binding made in a scope without a parent is a program-level name
							n.Body.List = append([]ast.Stmt{hook}, n.Body.List...)
							res.Counts["define_hooks"]++
						}
						n.Body.List = append([]ast.Stmt{fuelCall()}, n.Body.List...)
						res.Counts["fuel_points"]++
						usedRt = true
					}
				case *ast.FuncLit:
					n.Body.List = append([]ast.Stmt{fuelCall()}, n.Body.List...)
					res.Counts["fuel_points"]++
					usedRt = true
				}
				return true
			})
			if isMain {
				f.Name = ast.NewIdent("verifmain")
				for _, d := range f.Decls {
					if fd, ok := d.(*ast.FuncDecl); ok && fd.Recv == nil && fd.Name.Name == "main" {
						fd.Name = ast.NewIdent("Main")
					}
				}
			}
			if usedRt || len(extra[f]) > 0 {
				astutil.AddImport(p.Fset, f, RtPath)
			}
			for _, ip := range []string{"time", "os"} {
				if !astutil.UsesImport(f, ip) {
					astutil.DeleteImport(p.Fset, f, ip)
				}
			}
			var buf bytes.Buffer
			if err := printer.Fprint(&buf, p.Fset, f); err != nil {
				return nil, err
			}
			for _, e := range extra[f] {
				// fill in rewritten RHS markers
				for {
					a := strings.Index(e, "\x00RHS")
					if a < 0 {
						break
					}
					b := strings.Index(e[a+1:], "\x00") + a + 1
					k, _ := strconv.Atoi(e[a+4 : b])
					var rb bytes.Buffer
					printer.Fprint(&rb, p.Fset, rhsExprs[k])
					e = e[:a] + rb.String() + e[b+1:]
				}
				buf.WriteString("\n" + e)
			}
			if usedRt || len(extra[f]) > 0 {
				buf.WriteString("\nvar _ = verifrt.Fuel\n")
			}
			out := filepath.Join(pkgDirOut, filepath.Base(srcPath))
			if err := os.WriteFile(out, buf.Bytes(), 0o644); err != nil {
				return nil, err
			}
			if isMain {
				overlay[filepath.Join(repoDir, "verifmain", filepath.Base(srcPath))] = out
			} else {
				overlay[srcPath] = out
			}
		}
		// VerifReset for the package
		pkgName := p.Name
		vdir := filepath.Dir(p.GoFiles[0])
		if isMain {
			pkgName = "verifmain"
			vdir = filepath.Join(repoDir, "verifmain")
		}
		rs := "package " + pkgName + "\n\n// VerifReset re-assigns every package-level variable to its initial value.\nfunc VerifReset() {\n"
		for _, c := range resetCalls {
			rs += "\t" + c + "\n"
		}
		rs += "}\n"
		out := filepath.Join(pkgDirOut, "zz_verifreset.go")
		if err := os.WriteFile(out, []byte(rs), 0o644); err != nil {
			return nil, err
		}
		overlay[filepath.Join(vdir, "zz_verifreset.go")] = out
		if isMain {
			libPkgs = append(libPkgs, MainPath)
		} else {
			libPkgs = append(libPkgs, p.PkgPath)
		}
	}
	// verifrt
	rtDir := filepath.Join(outDir, "src", "verifrt")
	os.MkdirAll(rtDir, 0o755)
	if err := os.WriteFile(filepath.Join(rtDir, "rt.go"), []byte(rtSource), 0o644); err != nil {
		return nil, err
	}
	overlay[filepath.Join(repoDir, "verifrt", "rt.go")] = filepath.Join(rtDir, "rt.go")
	// verifreset
	rsDir := filepath.Join(outDir, "src", "verifreset")
	os.MkdirAll(rsDir, 0o755)
	var sb strings.Builder
	sb.WriteString("// Package verifreset (virtual) resets every repository package to its initial state.\npackage verifreset\n\nimport (\n")
	for i, lp := range libPkgs {
		fmt.Fprintf(&sb, "\tp%d %q\n", i, lp)
	}
	sb.WriteString(")\n\nfunc All() {\n")
	for i := range libPkgs {
		fmt.Fprintf(&sb, "\tp%d.VerifReset()\n", i)
	}
	sb.WriteString("}\n")
	if err := os.WriteFile(filepath.Join(rsDir, "reset.go"), []byte(sb.String()), 0o644); err != nil {
		return nil, err
	}
	overlay[filepath.Join(repoDir, "verifreset", "reset.go")] = filepath.Join(rsDir, "reset.go")

	ov := struct{ Replace map[string]string }{overlay}
	b, _ := json.MarshalIndent(ov, "", " ")
	res.OverlayFile = filepath.Join(outDir, "overlay.json")
	if err := os.WriteFile(res.OverlayFile, b, 0o644); err != nil {
		return nil, err
	}
	sort.Strings(res.Unowned)
	return res, nil
}

var rhsExprs []ast.Expr

func fuelCall() ast.Stmt {
	return &ast.ExprStmt{X: &ast.CallExpr{Fun: &ast.SelectorExpr{X: ast.NewIdent("verifrt"), Sel: ast.NewIdent("Fuel")}}}
}

func pureExpr(e ast.Expr) bool {
	pure := true
	ast.Inspect(e, func(n ast.Node) bool {
		switch n.(type) {
		case *ast.CallExpr, *ast.FuncLit, *ast.UnaryExpr:
			pure = false
		}
		return pure
	})
	return pure
}

// rewriteMapRange turns
//
//	for k, v := range m { body }
//
// into
//
//	for _, k := range verifrt.MapKeys(site, m) { v, ok := m[k]; if !ok { continue }; body }
//
// so that the explorer picks the iteration order.  Entries deleted during the
// iteration are skipped, as the Go specification requires.
func rewriteMapRange(n *ast.RangeStmt, site int) {
	m := n.X
	key := n.Key
	val := n.Value
	tok := n.Tok
	keyIdent := key
	var pre []ast.Stmt
	if key == nil || isBlank(key) {
		keyIdent = ast.NewIdent("verifKey__")
		tok = token.DEFINE
		if val != nil && !isBlank(val) && n.Tok == token.ASSIGN {
			// for _, v = range m  (assignment form): keep v assigned
			tok = token.DEFINE
		}
	}
	okId := ast.NewIdent("verifOk__")
	if val != nil && !isBlank(val) {
		asTok := token.DEFINE
		if n.Tok == token.ASSIGN {
			asTok = token.ASSIGN
			pre = append(pre, &ast.DeclStmt{Decl: &ast.GenDecl{Tok: token.VAR, Specs: []ast.Spec{&ast.ValueSpec{Names: []*ast.Ident{okId}, Type: ast.NewIdent("bool")}}}})
		}
		pre = append(pre, &ast.AssignStmt{Lhs: []ast.Expr{val, okId}, Tok: asTok, Rhs: []ast.Expr{&ast.IndexExpr{X: m, Index: keyIdent}}})
	} else {
		pre = append(pre, &ast.AssignStmt{Lhs: []ast.Expr{ast.NewIdent("_"), okId}, Tok: token.DEFINE, Rhs: []ast.Expr{&ast.IndexExpr{X: m, Index: keyIdent}}})
	}
	pre = append(pre, &ast.IfStmt{Cond: &ast.UnaryExpr{Op: token.NOT, X: okId}, Body: &ast.BlockStmt{List: []ast.Stmt{&ast.BranchStmt{Tok: token.CONTINUE}}}})
	if n.Tok == token.DEFINE {
		// silence "declared and not used" for keys/values the body ignores
		pre = append(pre, &ast.AssignStmt{Lhs: []ast.Expr{ast.NewIdent("_")}, Tok: token.ASSIGN, Rhs: []ast.Expr{keyIdent}})
	}
	n.Key = ast.NewIdent("_")
	n.Value = keyIdent
	n.Tok = tok
	n.X = &ast.CallExpr{
		Fun:  &ast.SelectorExpr{X: ast.NewIdent("verifrt"), Sel: ast.NewIdent("MapKeys")},
		Args: []ast.Expr{&ast.BasicLit{Kind: token.INT, Value: strconv.Itoa(site)}, m},
	}
	n.Body.List = append(pre, n.Body.List...)
}

func isBlank(e ast.Expr) bool {
	id, ok := e.(*ast.Ident)
	return ok && id.Name == "_"
}

// defineHook: for a method `Define(name string, ...)` whose receiver is a pointer to a struct with a
// pointer field `Parent` of the receiver's own type, the statement
// `if recv.Parent == nil { verifrt.DefinedGlobal(name) }`; nil for every other function.
func defineHook(fd *ast.FuncDecl, info *types.Info) ast.Stmt {
	if fd.Recv == nil || fd.Name.Name != "Define" || len(fd.Recv.List) != 1 || len(fd.Recv.List[0].Names) != 1 {
		return nil
	}
	if fd.Type.Params == nil || len(fd.Type.Params.List) == 0 || len(fd.Type.Params.List[0].Names) == 0 {
		return nil
	}
	first := fd.Type.Params.List[0]
	if b, ok := info.TypeOf(first.Type).(*types.Basic); !ok || b.Kind() != types.String {
		return nil
	}
	rt := info.TypeOf(fd.Recv.List[0].Type)
	ptr, ok := rt.(*types.Pointer)
	if !ok {
		return nil
	}
	st, ok := ptr.Elem().Underlying().(*types.Struct)
	if !ok {
		return nil
	}
	found := false
	for i := 0; i < st.NumFields(); i++ {
		if st.Field(i).Name() == "Parent" && types.Identical(st.Field(i).Type(), rt) {
			found = true
		}
	}
	if !found {
		return nil
	}
	recv := fd.Recv.List[0].Names[0].Name
	return &ast.IfStmt{
		Cond: &ast.BinaryExpr{X: &ast.SelectorExpr{X: ast.NewIdent(recv), Sel: ast.NewIdent("Parent")}, Op: token.EQL, Y: ast.NewIdent("nil")},
		Body: &ast.BlockStmt{List: []ast.Stmt{&ast.ExprStmt{X: &ast.CallExpr{
			Fun:  &ast.SelectorExpr{X: ast.NewIdent("verifrt"), Sel: ast.NewIdent("DefinedGlobal")},
			Args: []ast.Expr{ast.NewIdent(first.Names[0].Name)}}}}},
	}
}

// Package fw holds the data exchanged between the driver (cmd/mc) and the
// in-process workers (cmd/worker): case accounting, violations, replays.
package fw

import (
	"encoding/json"
	"fmt"
	"hash/fnv"
	"os"
	"sort"
	"strconv"
	"time"
)

// Replay is everything needed to re-run one case without any explorer.
type Replay struct {
	Property  string   `json:"property"`
	Sig       string   `json:"signature"`
	What      string   `json:"what"`
	Mode      string   `json:"mode"` // file | repl | lex | parse | args
	Program   string   `json:"program"`
	Stdin     string   `json:"stdin,omitempty"`
	Args      []string `json:"args,omitempty"`
	Choices   []int    `json:"choices,omitempty"`
	StdinSch  bool     `json:"stdin_schedule,omitempty"`
	StdinMode int      `json:"stdin_default_answer,omitempty"` // with stdin_schedule: the answer a read gets beyond Choices (0 line, 1 all, 2 byte)
	Expected  string   `json:"expected"`
	Observed  string   `json:"observed"`
	Related   []string `json:"related_programs,omitempty"`
	// CLI: the violation is visible from stdout/stderr/status of the plain
	// executable alone (no controlled choice, no internal observation).
	CLI bool `json:"cli_reproducible"`
	// raw in-process observation of Program (for confirmation / replay)
	InStdout string `json:"in_stdout,omitempty"`
	InStderr string `json:"in_stderr,omitempty"`
	InStatus int    `json:"in_status,omitempty"`
}

type Violation struct {
	Sig    string `json:"sig"`
	Count  int64  `json:"count"`
	Replay Replay `json:"replay"`
}

// ShardResult is what one worker process reports.
type ShardResult struct {
	Check         string                 `json:"check"`
	Shard         int                    `json:"shard"`
	Evaluations   int64                  `json:"evaluations"`
	Nontrivial    int64                  `json:"distinct_nontrivial"`
	States        int64                  `json:"states"`
	Transitions   int64                  `json:"transitions"`
	Traces        int64                  `json:"traces"`
	Skipped       map[string]int64       `json:"skipped"`
	Counters      map[string]int64       `json:"counters"`
	Outcomes      int64                  `json:"distinct_outcomes"`
	Samples       []interface{}          `json:"samples"`
	Violations    []Violation            `json:"violations"`
	Exhaustive    bool                   `json:"exhaustive"`
	Bounds        map[string]interface{} `json:"bounds"`
	Notes         []string               `json:"notes"`
	Rule          string                 `json:"rule"`
	HarnessErrors []string               `json:"harness_errors"`
	Done          bool                   `json:"done"`
}

// Ctx is the per-shard accounting a check writes into.
type Ctx struct {
	Check   string
	Tier    string
	Shard   int
	NShards int
	Seed    int64
	// Resume: skip (count but do not run) cases with index < SkipTo.
	SkipTo int64

	// Deadline: past it no further case is started (Mine answers false, explorers stop); the
	// result is then reported with exhaustive=false and a note.  Zero = none.
	Deadline time.Time
	expired  bool

	idx      int64
	R        ShardResult
	seen     map[uint64]struct{}
	outcomes map[uint64]struct{}
	vio      map[string]*Violation
	maxSamp  int
}

func NewCtx(check, tier string, shard, n int, seed int64) *Ctx {
	c := &Ctx{Check: check, Tier: tier, Shard: shard, NShards: n, Seed: seed,
		seen: map[uint64]struct{}{}, outcomes: map[uint64]struct{}{}, vio: map[string]*Violation{}, maxSamp: 6}
	c.R.Check = check
	c.R.Shard = shard
	c.R.Skipped = map[string]int64{}
	c.R.Counters = map[string]int64{}
	c.R.Bounds = map[string]interface{}{}
	c.R.Exhaustive = true
	budget := 0
	switch tier {
	case "quick":
		budget = 900
	case "thorough":
		budget = 5400
	}
	if v := os.Getenv("VERIF_BUDGET_S"); v != "" {
		if n, err := strconv.Atoi(v); err == nil {
			budget = n
		}
	}
	if budget > 0 {
		c.Deadline = time.Now().Add(time.Duration(budget) * time.Second)
		c.R.Bounds["wall_clock_budget_s"] = budget
	}
	return c
}

// Expired reports whether the wall-clock budget of this shard is used up; the first time it is, the
// result is marked not exhaustive.
func (c *Ctx) Expired() bool {
	if c.expired {
		return true
	}
	if c.Deadline.IsZero() || time.Now().Before(c.Deadline) {
		return false
	}
	c.expired = true
	c.R.Exhaustive = false
	c.Note(fmt.Sprintf("wall-clock budget used up at case index %d: enumeration stopped, everything before it was covered", c.idx))
	return true
}

func (c *Ctx) Quick() bool { return c.Tier != "thorough" }

// Mine advances the global case index and reports whether this shard runs it.
func (c *Ctx) Mine() bool {
	i := c.idx
	c.idx++
	if i < c.SkipTo {
		return false
	}
	if int(i%int64(c.NShards)) != c.Shard {
		return false
	}
	if i&63 == int64(c.Shard) || c.expired {
		if c.Expired() {
			return false
		}
	}
	return true
}

// Index of the case most recently handed out by Mine.
func (c *Ctx) Index() int64 { return c.idx - 1 }

// H64 is the 64-bit FNV-1a hash used for case identity.
func H64(s string) uint64 { return h64(s) }

func h64(s string) uint64 {
	h := fnv.New64a()
	h.Write([]byte(s))
	return h.Sum64()
}

// Eval records one executed case; nontrivial cases are counted distinct by text.
func (c *Ctx) Eval(caseText string, nontrivial bool) {
	c.R.Evaluations++
	if nontrivial {
		k := h64(caseText)
		if _, ok := c.seen[k]; !ok {
			c.seen[k] = struct{}{}
			c.R.Nontrivial++
		}
	}
}

// Outcome records a distinct observed outcome (vacuity indicator).
func (c *Ctx) Outcome(o string) {
	k := h64(o)
	if _, ok := c.outcomes[k]; !ok {
		c.outcomes[k] = struct{}{}
		c.R.Outcomes++
	}
}

func (c *Ctx) Sample(s interface{}) {
	if len(c.R.Samples) < c.maxSamp {
		c.R.Samples = append(c.R.Samples, s)
	}
}

func (c *Ctx) Skip(reason string) { c.R.Skipped[reason]++ }
func (c *Ctx) Count(k string)     { c.R.Counters[k]++ }
func (c *Ctx) Add(k string, n int64) {
	c.R.Counters[k] += n
}
func (c *Ctx) Note(s string) { c.R.Notes = append(c.R.Notes, s) }
func (c *Ctx) Bound(k string, v interface{}) {
	c.R.Bounds[k] = v
}
func (c *Ctx) HarnessError(s string) {
	if len(c.R.HarnessErrors) < 20 {
		c.R.HarnessErrors = append(c.R.HarnessErrors, s)
	}
}

// Violate records a violation under a signature; the first (hence smallest,
// enumeration being simplest-first) replay per signature is kept.
func (c *Ctx) Violate(r Replay) {
	r.Property = c.Check
	v, ok := c.vio[r.Sig]
	if !ok {
		c.vio[r.Sig] = &Violation{Sig: r.Sig, Count: 1, Replay: r}
		return
	}
	v.Count++
	if len(r.Program) < len(v.Replay.Program) {
		v.Replay = r
	}
}

func (c *Ctx) NViolations() int { return len(c.vio) }

// ViolatingCases is the number of cases (not signatures) that violated so far.
func (c *Ctx) ViolatingCases() int64 {
	var n int64
	for _, v := range c.vio {
		n += v.Count
	}
	return n
}

func (c *Ctx) Finish(path string) error {
	c.R.Done = true
	keys := make([]string, 0, len(c.vio))
	for k := range c.vio {
		keys = append(keys, k)
	}
	sort.Strings(keys)
	for _, k := range keys {
		c.R.Violations = append(c.R.Violations, *c.vio[k])
	}
	b, err := json.Marshal(c.R)
	if err != nil {
		return err
	}
	return os.WriteFile(path, b, 0o644)
}

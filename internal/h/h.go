// Package h is the in-process execution harness.  It links the repository's
// packages *through the instrumentation overlay* (it does not build without
// it) and runs one Borno execution at a time under explorer-chosen answers.
package h

import (
	"encoding/binary"
	"fmt"
	"os"
	"path/filepath"
	"runtime/debug"
	"strings"

	"github.com/ah-naf/borno/ast"
	"github.com/ah-naf/borno/interpreter"
	"github.com/ah-naf/borno/lexer"
	"github.com/ah-naf/borno/parser"
	"github.com/ah-naf/borno/token"
	"github.com/ah-naf/borno/utils"
	"github.com/ah-naf/borno/verifmain"
	"github.com/ah-naf/borno/verifreset"
	"github.com/ah-naf/borno/verifrt"
	"verif/internal/fw"
)

var (
	RealStdout *os.File
	RealStderr *os.File
	outF, errF *os.File
	inflight   *os.File
)

const DefaultFuel = 2_000_000

func init() {
	RealStdout, RealStderr = os.Stdout, os.Stderr
	dir := "/dev/shm"
	if st, err := os.Stat(dir); err != nil || !st.IsDir() {
		dir = os.TempDir()
	}
	mk := func(tag string) *os.File {
		f, err := os.CreateTemp(dir, "verif-"+tag+"-*")
		if err != nil {
			panic(err)
		}
		os.Remove(f.Name()) // anonymous
		return f
	}
	outF, errF = mk("out"), mk("err")
	os.Stdout, os.Stderr = outF, errF
	if p := os.Getenv("VERIF_INFLIGHT"); p != "" {
		f, err := os.OpenFile(p, os.O_RDWR|os.O_CREATE, 0o644)
		if err == nil {
			inflight = f
		}
	}
	debug.SetMaxStack(192 << 20)
	// The tree under test reaches files through an API the instrumenter does not virtualise (os.Open,
	// os.Stat, ...): the virtual files are then also written into a private directory on tmpfs, which
	// becomes the working directory, so that every file API sees them.
	if d := os.Getenv("VERIF_MATERIALIZE"); d != "" {
		if os.MkdirAll(d, 0o755) == nil && os.Chdir(d) == nil {
			Materialize = d
		}
	}
}

// Materialize is the directory (the working directory) virtual files are also written to; "" = not.
var Materialize string
var materialized []string

func materialize(files map[string][]byte) {
	if Materialize == "" {
		return
	}
	for _, n := range materialized {
		os.Remove(n)
	}
	materialized = materialized[:0]
	for name, b := range files {
		if name == "" || filepath.IsAbs(name) || strings.Contains(name, "..") {
			continue
		}
		if d := filepath.Dir(name); d != "." {
			os.MkdirAll(d, 0o755)
		}
		if os.WriteFile(name, b, 0o644) == nil {
			materialized = append(materialized, name)
		}
	}
}

// Inflight records the case about to be executed, so that the driver can
// identify it if this process dies of a fatal error.
func Inflight(kind, text string) bool {
	if poison != nil {
		if _, bad := poison[fw.H64(kind+"\n"+text)]; bad {
			return false
		}
	}
	if inflight == nil {
		return true
	}
	if len(text) > 60000 {
		text = text[:60000]
	}
	buf := make([]byte, 8+len(kind)+1+len(text))
	binary.LittleEndian.PutUint64(buf, uint64(len(kind)+1+len(text)))
	copy(buf[8:], kind)
	buf[8+len(kind)] = '\n'
	copy(buf[9+len(kind):], text)
	inflight.WriteAt(buf, 0)
	return true
}

var poison map[uint64]struct{}

func init() {
	if p := os.Getenv("VERIF_POISON"); p != "" {
		poison = map[uint64]struct{}{}
		for _, f := range strings.Split(p, ",") {
			var v uint64
			fmt.Sscanf(f, "%x", &v)
			poison[v] = struct{}{}
		}
	}
}

var fatalOutcome = Outcome{Panic: "fatal error: the process died executing this case (see replay)", Status: 2}

// exitOut / exitErr: sizes of the captured streams when the program called os.Exit (-1: it did not).
var exitOut, exitErr int64 = -1, -1

func drain(f *os.File, limit int64) string {
	n, _ := f.Seek(0, 1)
	if n == 0 {
		return ""
	}
	keep := n
	if limit >= 0 && limit < n {
		keep = limit // written by deferred calls after os.Exit: a real process would not have run them
	}
	defer func() {
		f.Truncate(0)
		f.Seek(0, 0)
	}()
	if keep == 0 {
		return ""
	}
	b := make([]byte, keep)
	f.ReadAt(b, 0)
	return string(b)
}

func drainOld(f *os.File) string {
	n, _ := f.Seek(0, 1)
	if n == 0 {
		return ""
	}
	b := make([]byte, n)
	f.ReadAt(b, 0)
	f.Truncate(0)
	f.Seek(0, 0)
	return string(b)
}

// Opts are the explorer's answers for one execution.
type Opts struct {
	Stdin         string
	StdinSchedule bool // every read is a choice point
	StdinMode     int  // default read mode (0 line, 1 all, 2 byte)
	Prefix        []int
	Fuel          int64
	ClockNanos    int64 // 0 = default instant
	GCEvery       int64 // > 0: a complete garbage collection at every GCEvery-th fuel point
	Args          []string
	Files         map[string]string
	FileErrs      map[string]string
}

// Outcome is everything observable about one execution.
type Outcome struct {
	Stdout     string
	Stderr     string
	Status     int // process exit status main() would have produced
	Panic      string
	Diverged   bool
	Points     []verifrt.ChoicePoint
	BadReplay  string
	StdinReads int
	StdinPos   int
	NowCalls   int
	FuelSpent  int64
	GCRuns     int64
	HadError   bool
	HadRuntime bool
}

func (o Outcome) Abnormal() bool { return o.Panic != "" }

// FirstDiag returns the first diagnostic: for runtime errors the message and
// its "[line N]" line, for static errors the first line.
func (o Outcome) FirstDiag() string {
	if o.Stderr == "" {
		return ""
	}
	lines := strings.Split(o.Stderr, "\n")
	if strings.HasPrefix(lines[0], "[line ") {
		return lines[0]
	}
	if len(lines) > 1 && strings.HasPrefix(lines[1], "[line ") {
		return lines[0] + "\n" + lines[1]
	}
	return lines[0]
}

func prep(o Opts) {
	exitOut, exitErr = -1, -1
	verifrt.ExitHook = func() {
		exitOut, _ = outF.Seek(0, 1)
		exitErr, _ = errF.Seek(0, 1)
	}
	verifreset.All()
	verifrt.ResetRun()
	verifrt.StdinData = []byte(o.Stdin)
	verifrt.StdinSchedule = o.StdinSchedule
	verifrt.StdinDefault = o.StdinMode
	verifrt.Prefix = o.Prefix
	fuel := o.Fuel
	if fuel == 0 {
		fuel = DefaultFuel
	}
	verifrt.FuelLeft = fuel
	verifrt.GCEvery = o.GCEvery
	if o.ClockNanos != 0 {
		verifrt.NowValue = timeUnix(o.ClockNanos)
	} else {
		verifrt.NowValue = timeUnix(1700000000_123000000)
	}
	for k, v := range o.Files {
		verifrt.Files[k] = []byte(v)
	}
	for k, v := range o.FileErrs {
		verifrt.FileErrs[k] = fmt.Errorf("%s", v)
	}
}

func finish(out *Outcome, fuel int64) {
	out.Stdout = drain(outF, exitOut)
	out.Stderr = drain(errF, exitErr)
	out.Points = append([]verifrt.ChoicePoint(nil), verifrt.Points...)
	out.BadReplay = verifrt.BadReplay
	out.StdinReads = verifrt.StdinReads
	out.StdinPos = verifrt.StdinPos
	out.NowCalls = verifrt.NowCalls
	if fuel == 0 {
		fuel = DefaultFuel
	}
	out.FuelSpent = fuel - verifrt.FuelLeft
	out.GCRuns = verifrt.GCRuns
	out.HadError = utils.HadError
	out.HadRuntime = utils.HadRuntimeError
}

func guard(out *Outcome, f func()) {
	defer func() {
		if r := recover(); r != nil {
			switch v := r.(type) {
			case verifrt.ExitPanic:
				out.Status = v.Code
			case verifrt.FuelExhausted:
				out.Diverged = true
				out.Status = -1
			default:
				out.Panic = fmt.Sprint(r)
				if len(out.Panic) > 300 {
					out.Panic = out.Panic[:300]
				}
				out.Status = 2
			}
		}
	}()
	f()
}

// RunFile executes `borno prog.bn` with the given program text through the
// repository's own main package (rewritten copy), in-process.
func RunFile(prog string, o Opts) Outcome {
	if !Inflight("file", prog) {
		return fatalOutcome
	}
	prep(o)
	if o.Args != nil {
		verifrt.Args = append([]string{"borno"}, o.Args...)
	} else {
		verifrt.Args = []string{"borno", "prog.bn"}
	}
	verifrt.Files["prog.bn"] = []byte(prog)
	materialize(verifrt.Files)
	var out Outcome
	guard(&out, verifmain.Main)
	finish(&out, o.Fuel)
	return out
}

// RunRepl executes `borno` with no argument; the session script is stdin.
func RunRepl(session string, o Opts) Outcome {
	if !Inflight("repl", session) {
		return fatalOutcome
	}
	o.Stdin = session
	prep(o)
	verifrt.Args = []string{"borno"}
	var out Outcome
	guard(&out, verifmain.Main)
	finish(&out, o.Fuel)
	return out
}

// Lex runs the scanner alone.
func Lex(src string, o Opts) ([]token.Token, Outcome) {
	if !Inflight("lex", src) {
		return nil, fatalOutcome
	}
	prep(o)
	var out Outcome
	var toks []token.Token
	guard(&out, func() {
		toks = lexer.NewScanner([]rune(src)).ScanTokens()
	})
	finish(&out, o.Fuel)
	return toks, out
}

// Parse runs scanner and parser.
func Parse(src string, o Opts) ([]token.Token, []ast.Stmt, Outcome) {
	if !Inflight("parse", src) {
		return nil, nil, fatalOutcome
	}
	prep(o)
	var out Outcome
	var toks []token.Token
	var stmts []ast.Stmt
	guard(&out, func() {
		toks = lexer.NewScanner([]rune(src)).ScanTokens()
		stmts, _ = parser.NewParser(toks).Parse()
	})
	finish(&out, o.Fuel)
	return toks, stmts, out
}

// Interpret mirrors main.run for a file but hands back the values of the
// top-level expression statements (used only to fingerprint hidden state).
func Interpret(src string, o Opts) ([]interface{}, Outcome) {
	if !Inflight("interp", src) {
		return nil, fatalOutcome
	}
	prep(o)
	var out Outcome
	var vals []interface{}
	guard(&out, func() {
		toks := lexer.NewScanner([]rune(src)).ScanTokens()
		stmts, _ := parser.NewParser(toks).Parse()
		if utils.HadError {
			out.Status = 65
			return
		}
		vals = interpreter.NewInterpreter().Interpret(stmts, false)
		if utils.HadRuntimeError {
			out.Status = 70
		}
	})
	finish(&out, o.Fuel)
	return vals, out
}

// ConvertDigits exposes utils.ConvertBanglaDigitsToASCII.
func ConvertDigits(s string) string { return utils.ConvertBanglaDigitsToASCII(s) }

// GlobalNames lists the names the implementation binds at program level before the first statement
// of a program runs (observed while an empty program is executed).
func GlobalNames() []string {
	verifrt.GlobalNames = nil
	verifrt.RecordGlobals = true
	RunFile("", Opts{})
	verifrt.RecordGlobals = false
	return append([]string{}, verifrt.GlobalNames...)
}

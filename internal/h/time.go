package h

import "time"

func timeUnix(nanos int64) time.Time { return time.Unix(0, nanos) }

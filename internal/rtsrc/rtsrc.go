// Package rtsrc carries the source text of the virtual package verifrt.
package rtsrc

import _ "embed"

//go:embed rt.go.txt
var Source string

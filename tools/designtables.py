#!/usr/bin/env python3
"""Regenerate sections 9.3 / 9.4 of DESIGN.md (seeded changes, mutants) from seeded/*/meta.json and mutants/mutants.json."""
import json, glob, os, re
ROOT = os.path.dirname(os.path.dirname(os.path.abspath(__file__)))
rows = []
for d in sorted(glob.glob(ROOT + '/seeded/C*')):
    m = json.load(open(d + '/meta.json'))
    name = os.path.basename(d)
    rnd = {'b': 2, 'c': 3, 'd': 4, 'e': 5}.get(name[3], 1)
    note = re.sub(r'^round \d; ', '', m['evaluation_note']).replace('|', '/')
    rows.append((name, rnd, m['breaks_property'], ', '.join(m['detected_by']), 'yes' if m['detected_before_strengthening'] else 'no', note))
out = []
out.append("### 9.3 Independent seeded changes (sub-agents) and what they taught\n")
out.append("Five rounds of twenty changes each were written by fresh sub-agents, one agent per property, each seeing only the")
out.append("text of its property and a scratch worktree of `/repo` (never `/verif`); rounds 2 to 5 were told what the earlier")
out.append("rounds had done for that property and asked for a different mechanism.  Every change compiles, leaves the 157")
out.append("stable tests passing, and comes with a demonstration that fails with it and passes without")
out.append("(`seeded/<name>/{patch.diff, demo.sh, *.bn, meta.json}`).  Each was applied to `/repo` (`tools/seedeval.sh`: `git")
out.append("apply`, the suite, the demo, the quick check, `git apply -R`), never committed there.\n")
for r in (1, 2, 3, 4, 5):
    rr = [x for x in rows if x[1] == r]
    own = sum(1 for x in rr if x[4] == 'yes')
    out.append(f"* round {r}: {own} of {len(rr)} were reported by the property's own check as it stood when the change was written.")
out.append(f"\n**All {len(rows)} are reported now**, each by the check of its own property (and often by neighbours: column 4).  The")
out.append("misses had one cause in common — a generator that held fixed a dimension the code can branch on — and each led")
out.append("to a generalisation that is again exhaustive within its bound, never to a pattern lifted from the patch:\n")
out.append("| seeded change | round | breaks | reported by | at first | what the check lacked / what was added |")
out.append("|---|---|---|---|---|---|")
for r in rows:
    out.append(f"| `{r[0]}` | {r[1]} | {r[2]} | {r[3]} | {r[4]} | {r[5]} |")
out.append("")
out.append("Dimensions added because of these rounds: every declaration form and loop-header form; closure declaration sites,")
out.append("instance re-creation, escaping closures; re-entrant call sites; argument counts at every call position; traced")
out.append("conditions and else-if ladders; every value as a condition; leaf *forms* (bare read, literal, assignment, mutating call,")
out.append("element read/store, faulting expression) and all operator pairs in unparenthesised chains; generated producers")
out.append("(every operator application over a boundary alphabet whose model value is the target) and normalisation-sensitive")
out.append("strings for origin-independence; numeric-looking strings as operands (fail or behave as the number); every heap")
out.append("graph of two containers x two slots; repeated references in every observation; literal sites evaluated repeatedly;")
out.append("several start states and mid-history listings in the heap searches; canonically equivalent but distinct names in")
out.append("key pools and renaming schemes; compact and one-line layouts; a statement-level token alphabet, extension of dead")
out.append("leaves (identifier, repeats of the dead token, every symbol); both names of a built-in; same-process repetition,")
out.append("repetition sessions and print-then-fail lines; lists of extremes; names that are wrong in two ways at once;")
out.append("(round 4) whole rows and columns of the operator matrix in one run; built-in names as parameter names (the one")
out.append("binding the parser allows them); CRLF line ends; names and receiver chains of every length in three alphabets in")
out.append("diagnostics; indexes one rounding error away from a whole number; object->array->object literal sites; stdin")
out.append("delivery as a schedule for both input names; exact container text (calibrated) with empty strings at every position;")
out.append("loops without a condition as wrappers; (round 5) every built-in and several function shapes under ==; the enclosing")
out.append("function's own name as a variable; sequences of calls over all return forms; format-special characters in quoted")
out.append("text; every built-in on every argument list; texts stretched across powers of two (which exposed defect 15); every")
out.append("kind as an index; easily confused property names; forced garbage collections (memory layout); bare literal operands;")
out.append("values shown after histories; every split of a text as a producer; rows and columns of built-in calls in one run;")
out.append("several static faults per text with the whole diagnostic list compared; deep recursion in prompt lines.\n")
out.append("### 9.4 Vetted single-site mutants\n")
ms = json.load(open(ROOT + '/mutants/mutants.json'))
live = [m for m in ms if m.get('passes_existing_tests') and not m.get('equivalent')]
out.append(f"`mutants/mutants.json` holds {len(ms)} single-site edits: {len(live)} compile, pass the repository's suite and are not")
out.append("equivalent; `tools/mutants.py` applies each to `/repo`'s working tree, runs the quick check of its property and")
out.append("reverts.  All of them are reported (exit 1) by the check of their property.  Five are killed by the repository's")
out.append("own suite and two became equivalent after a fix (M15, M37).  Ten are the reverts of the `fix:` commits (M54-M64).\n")
byp = {}
for m in live:
    for p in m['prop'].split('/'):
        byp.setdefault(p, []).append(m['id'])
out.append("| check | mutants it reports |")
out.append("|---|---|")
for p in sorted(byp):
    out.append(f"| {p} | {' '.join(byp[p])} |")
text = open(ROOT + '/DESIGN.md', encoding='utf8').read()
i = text.index('### 9.3 ')
open(ROOT + '/DESIGN.md', 'w', encoding='utf8').write(text[:i] + '\n'.join(out) + '\n')
print('rows', len(rows))

#!/usr/bin/env python3
"""tools/seedsave.py <Cxx> <name> <detected_by comma list> <initially: yes|no> <note>: archive /tmp/seed/out/<Cxx> as /verif/seeded/<name>/"""
import json, os, shutil, sys, glob
cid, name, det, init, note = sys.argv[1:6]
src = os.environ.get('SEED_ROOT', '/tmp/seed') + '/out/' + cid
dst = '/verif/seeded/' + name
os.makedirs(dst, exist_ok=True)
for f in glob.glob(src + '/*'):
    b = os.path.basename(f)
    if b in ('borno-demo', 'PROMPT.txt', 'PROPERTY.txt') or os.path.isdir(f) or os.path.getsize(f) > 200000:
        continue
    shutil.copy(f, dst)
try:
    meta = json.load(open(dst + '/meta.json'))
except Exception:
    meta = {}
meta['breaks_property'] = cid
meta['confirmed'] = {'existing_tests': '157/157 stable tests pass with the change (tools/baseline.py)', 'demo_on_unchanged_tree': 'exit 0', 'demo_on_changed_tree': 'exit 1',
                     'how': 'tools/seedeval.sh: git -C /repo apply patch.diff; tools/baseline.py; demo.sh /repo; ./check <id> quick; git -C /repo apply -R patch.diff'}
meta['detected_by'] = [d for d in det.split(',') if d]
meta['detected_before_strengthening'] = (init == 'yes')
meta['evaluation_note'] = note
json.dump(meta, open(dst + '/meta.json', 'w'), indent=1, ensure_ascii=False)
print('saved', dst, sorted(os.listdir(dst)))

#!/bin/sh
# tools/seedeval.sh <seed-dir> <Cxx> [more checks...]: apply <seed-dir>/patch.diff to /repo, run the repository's suite,
# the seed's demo and the given checks (quick), then undo.  Prints one summary line per step.
D="$1"; shift
[ -f "$D/patch.diff" ] || { echo "no patch in $D"; exit 2; }
git -C /repo diff --quiet || { echo "/repo is dirty"; exit 2; }
git -C /repo apply --check "$D/patch.diff" || { echo "patch does not apply"; exit 2; }
echo "== demo on the unchanged tree"; bash "$D/demo.sh" /repo >/dev/null 2>&1; echo "demo(unchanged) exit=$?"
git -C /repo apply "$D/patch.diff"
echo "== repository suite with the change"; /verif/tools/baseline.py | tail -3
bash "$D/demo.sh" /repo >/dev/null 2>&1; echo "demo(changed) exit=$?"
TIER="${SEED_TIER:-quick}"
for c in "$@"; do
  /verif/check "$c" "$TIER" > /tmp/seedeval.$$ 2>&1; rc=$?
  echo "check $c $TIER exit=$rc violations=$(grep -c '^VIOLATION' /tmp/seedeval.$$)"
  grep -A4 '^VIOLATION' /tmp/seedeval.$$ | head -${SEED_SHOW:-12}
  grep 'HARNESS\|INSTRUMENT\|BUILD' /tmp/seedeval.$$ | head -5
done
rm -f /tmp/seedeval.$$
git -C /repo apply -R "$D/patch.diff"; git -C /repo status --short

#!/usr/bin/env python3
"""Apply each vetted mutant (mutants/mutants.json) to /repo's working tree, run the
check of its property, expect a VIOLATION (exit 1), and revert with git checkout.
usage: tools/mutants.py [--tier quick] [ids or property ids ...]"""
import json, subprocess, sys, os, time
ROOT = os.path.dirname(os.path.dirname(os.path.abspath(__file__)))
ms = json.load(open(os.path.join(ROOT, 'mutants', 'mutants.json')))
tier = 'quick'
args = sys.argv[1:]
if args and args[0] == '--tier':
    tier = args[1]; args = args[2:]
sel = [m for m in ms if not args or m['id'] in args or any(p in args for p in m['prop'].split('/'))]
res = []
for m in sel:
    if not m.get('passes_existing_tests', True) or m.get('equivalent'):
        continue
    path = os.path.join('/repo', m['file'])
    src = open(path, encoding='utf8').read()
    if src.count(m['old']) < 1:
        res.append((m['id'], m['prop'], 'STALE (old text not found)', m['desc'])); continue
    open(path, 'w', encoding='utf8').write(src.replace(m['old'], m['new'], 1))
    try:
        props = m.get('also', []) + [m['prop']]
        outs = []
        for p in m['prop'].split('/'):
            t = time.time()
            r = subprocess.run([os.path.join(ROOT, 'check'), p, tier], capture_output=True, text=True, errors='replace')
            v = [l for l in r.stdout.splitlines() if l.startswith('VIOLATION')]
            outs.append('%s exit=%d violations=%d %.0fs' % (p, r.returncode, len(v), time.time() - t))
            if r.returncode not in (0, 1):
                outs.append(r.stdout[-400:])
        res.append((m['id'], m['prop'], '; '.join(outs), m['desc']))
    finally:
        subprocess.run(['git', '-C', '/repo', 'checkout', '--', m['file']], check=True)
    print(res[-1], flush=True)
print()
caught = sum(1 for r in res if 'exit=1' in r[2])
print('caught %d / %d' % (caught, len(res)))

#!/usr/bin/env python3
"""Generate /verif/MANIFEST.json from the table below (single source of truth)."""
import json, os
ROOT = os.path.dirname(os.path.dirname(os.path.abspath(__file__)))
props = [json.loads(l) for l in open(os.path.join(ROOT, 'properties.jsonl'))]
MC, EX = 'model_checking', 'exploration'
C = {
 'C01': (MC, 'exhaustive search over grammar-accepted token sequences and bounded syntax trees against an independent ladder parser',
   '(a) Every token sequence the amended grammar (Earley over grammer.txt) accepts, up to length bounds over three token alphabets, is parsed by the real parser and its tree - walked through exported fields - must equal the tree of an independent precedence-climbing parser driven by the documented ladder. (b) Every expression tree of depth <=2 over every node form, a depth-3 family, all operator-level triples in all five shapes and every statement skeleton are written with minimal and full parentheses and must parse back to the same tree. (c) Ladder-conform parentheses never change what operator triples print.',
   'grammar extraction from grammer.txt with the amendments the property lists; ladder parser in internal/model; bounds on length/depth'),
 'C08': (MC, 'viable-prefix search: Earley recogniser over the documented grammar drives exhaustive token-sequence exploration of the real front end',
   'From every prefix that the amended grammar says is viable, every symbol of the token alphabet is appended (three alphabets, length bounds); every viable prefix and every dead one-token extension is rendered on one line and one token per line and run through the real lexer+parser: accepted iff derivable, rejected texts flag an error with line numbers inside the text and the first diagnostic on the line of the first dead token; rejected texts appended to a print statement run nothing and exit 65 (through main). Character-level texts, deep nesting to 10^3/10^4, the 255-parameter limit and the reserved-name set are enumerated as separate families.',
   'Earley recogniser and grammar amendments (internal/model/grammar.go); texts with a trailing comma in an object literal or a ধরি declaration spanning a line break are out of domain and skipped (counted)'),
 'C06': (MC, 'exhaustive fault-kind x syntactic-position x enclosure-path product against the model, differential first diagnostic',
   'Every fault kind (24) is planted at every syntactic position (37) under every enclosure path up to a depth bound over block/if/while/for/function; each program prints before the fault and after it at every level, its loops would continue, and an input call with available stdin follows. Compared on the real interpreter (through its main package): stdout against the model, first diagnostic against the diagnostic the same fault produces alone at top level, its line, zero reads of stdin, termination by fuel, status 70; the fault-free twin must be clean.',
   'reference model; fuel-based divergence detection (instrumented loop bodies / function entries)'),
 'C07': (EX, 'complete form x value x index-magnitude matrices under crash isolation',
   'Every indexing/property/call/store/print/concatenation/built-in form on every value of the operand alphabet with every index magnitude, every binary and prefix operator on every (ordered pair of) value(s), self-containing arrays/objects under ten uses, recursion / nesting / size families to 10^4, and the same forms as REPL lines are run in-process; a recovered panic, fuel exhaustion, a dead worker process (the driver records the case in flight) or a status other than 0/70 is a violation. Panics met by any other check are reported by that check too.',
   'crash isolation by worker sub-processes with an in-flight record; unbounded recursion is outside the domain'),
 'C11': (MC, 'breadth-first search over array-operation histories with states merged on model heap + implementation slice fingerprint',
   'Histories of array operations (literals, aliasing, indexed write, এড with 1/2 extras, রিমুভ at first/second/last, parameter aliasing, arrays stored in arrays, লেন as a number, all bad-index leaves) on three variables with shared ancestry are explored breadth-first to a depth bound; after every step every variable and its length is compared with a pure list model. States are merged on the canonical model heap joined with the backing-array class / cap / len of every live Go slice (read from the values Interpret returns), so that hidden sharing of spare capacity is part of the state.',
   'reference model; merging argument in DESIGN.md §2.4; array length capped at 5; self-containing arrays excluded (C07)'),
 'C12': (MC, 'breadth-first search over object-operation histories x iteration-order schedules',
   'Histories of object operations (literals with 0-6 keys, aliasing, write, read, delete, nesting, parameter aliasing, `.` and the object built-ins on every non-object kind) on two variables with shared ancestry are explored breadth-first; after each history both objects are printed and their key/value listings are compared pairwise with a pure map model (order free, pairing and completeness required) under every iteration-order schedule within a deviation bound.',
   'reference model; overlay-instrumented map ranges'),
 'C13': (MC, 'stateless schedule exploration: every iteration-order schedule x clock instants must give one outcome',
   'Programs that reach instrumented map-iteration points (literals with probes in every source order, listings of objects built by writes/deletes in every order, diagnostics quoting a literal, the C12 histories, the shipped examples) are run under every schedule (unbounded for <=3 choice points, else <=2 deviations) and two clock instants; stdout, status and first diagnostic must be identical. Supplementary: repeated fresh uninstrumented processes. The instrumenter inventories constructs it cannot own (goroutines, select, rand, %p, unsafe ...): none today.',
   'every source of nondeterminism is either owned by the overlay or listed in the evidence; memory layout / pid are covered only by the absence of constructs that could observe them'),
 'C15': (EX, 'exhaustive value families checked clause by clause',
   'Numbers (all binades x 6 mantissa patterns, powers of ten with neighbours, the 1e6 switch, 2^53 neighbourhood, d/10 d/3 d/7, integer-typed bitwise results, +-0) and strings (every string of length <=2 over the Bangla block, Latin/Bangla bases with one or two combining marks, embedded newlines) are printed alone, through a variable, inside an array, as literal-built and assigned property, and through "" + v: one trailing newline; numerals read back exactly (math/big), use no more digits than the shortest round-trip, integers below 1e6 are plain; strings come out NFC and canonically equivalent; + splices exactly what দেখাও prints.',
   'strconv shortest formatting as the yardstick for digit count; x/text NFC tables'),
 'C16': (EX, 'complete context x producer product, purely differential',
   'Every one-hole context (each operand position of each operator against six partner kinds, logical and prefix operators, conditions, index, stores, delete key, each argument of each built-in, printing alone / in an array / as a property, concatenation, callee) is filled with every producer of the same string ("abc", "", "12", " ") or number (0, 3, 10^6); all producers must give the literal\'s stdout, first diagnostic and status; every ordered pair of producers must be ==.',
   'no model: outcomes are compared with each other only'),
 'C17': (EX, 'complete built-in x arity x kind matrix and numeric boundary families against the model',
   'Every built-in with 0-4 arguments over kind combinations (all 8^n for n<=2, one wrong position at a time above), every math built-in on boundary values (pairs for ঘাত, which must equal **), min/max over all permutations of small lists in both call forms, and ক্লক at controlled instants (and bracketed through the executable) are compared with the model: exact for abs/sqrt/round (including the sign of zero), within 4 ulp for sin/cos/tan/pow, runtime error for every misuse.',
   'Go math package as the platform math library; numeric-looking strings are unspecified and skipped'),
 'C18': (EX, 'every site x every transformation over enumerated corpora, differential',
   'For the shipped examples and enumerated corpora (control-flow skeletons, probe contexts, fault x position programs, scope histories) each transformation family - layout inserts in every inter-token gap, digit scripts of every literal, logical-operator spellings, four renaming schemes, redundant parentheses around every sub-expression, dead code at every statement boundary - is applied at all sites at once (whole corpus) and at every single site (sub-corpus); stdout, status and first diagnostic (modulo line numbers and renamed names) must not change.',
   'model lexer / ladder parser to locate sites; known finding: the missing-property diagnostic quotes the object expression'),
 'C19': (MC, 'environment-answer search: command lines, outcome classes and every stdin read-chunking schedule through the real main package',
   'The rewritten copy of the main package is run in-process with explorer-chosen argv, virtual files and stdin: 15 name shapes x 0-2 extra arguments; programs of every outcome class with the fault at start/middle/end under five wrappers (status <-> stream classification); programs with 0-3 input calls x every stdin of 0-4 lines over a 4-line pool x trailing newline, under every schedule of read sizes (to next newline / all available / one byte) within 2 deviations from both default deliveries. A command-line and stdin-as-pipe/file matrix is repeated through the real executable.',
   'overlay rewrites os.Args/os.Exit/os.ReadFile/os.Stdin; input beyond the last complete line is unspecified and skipped'),
 'C20': (MC, 'exhaustive session histories through the real read-eval loop, per-line differential + model echo',
   'Every session of up to L lines over a 22-line pool (prints, bare expressions, declarations, blocks, functions, lexical/syntax/runtime errors, stray break, empty line, comment) is run through the rewritten main package: response i must equal the response the line gets alone in a fresh session, stderr the concatenation of per-line stderr, status 0 after a final prompt; valid lines are also compared with the model (echo of bare expression values). A sample of sessions is repeated through the real executable.',
   'reference model for echo; sessions are bounded in length'),
 'C02': (EX, 'complete operator x operand-pair matrix against the reference evaluator',
   'Every unary/binary operator is applied to every ordered pair of a 49-value operand alphabet (all runtime kinds, IEEE boundary magnitudes, integer-typed results), equality laws are checked on every pair of bound values, and every depth-2 composition over a sub-alphabet is run; each program is executed on the real interpreter (through its own main package) and judged by an independent evaluator. Exhaustive over the stated finite alphabets; values outside them (random doubles) are not covered.',
   'reference evaluator (internal/model) using Go float64 arithmetic, math.Mod and math.Pow; overlay instrumentation; string+boolean and numeric-looking strings are unspecified and skipped'),
 'C03': (MC, 'exhaustive search over scope-event histories against a scope-stack model',
   'All well-nested histories of declare/assign/read/enter/exit/call/closure events over colliding names up to a length bound are enumerated (every prefix closed and executed as a program on the real interpreter) and compared - stdout, error kind, error line, status - with an independent scope-stack model; errors and out-of-domain programs are leaves.',
   'reference model; the domain restriction of the property is implemented by the model (closure free-variable rule); bound on history length'),
 'C04': (MC, 'exhaustive enumeration of return placements and closure call interleavings against the model',
   'Return at every nesting path over block/if/else/while/for, the arity matrix, every value kind as callee, recursion depths, and every interleaving (up to a length bound) of calls to the sibling closures of two counter instances under four holder forms are executed on the real interpreter and compared with the model.',
   'reference model; bounds on nesting depth and interleaving length'),
 'C05': (MC, 'exhaustive control-flow skeleton enumeration against the model',
   'Every statement skeleton over trace points, if/else, while, for (header clauses traced), blocks, break and continue up to a size and depth bound is executed on the real interpreter and compared on the full trace with the model; stray break/continue/return at top level included.',
   'reference model; programs the model cannot finish within its step budget are skipped (counted)'),
 'C09': (MC, 'exhaustive prefix-tree enumeration of texts against a longest-match model lexer',
   'Every concatenation of lexical fragments up to a length bound (two alphabets), and every Unicode scalar value alone and in two contexts, is pushed through the real scanner; token kinds, lexemes, literals, lines, the single EOF and the number/lines of diagnostics are compared with an independent longest-match lexer.',
   'model lexer built on Go unicode tables and math/big; bound on text length in fragments'),
 'C10': (EX, 'exhaustive per-code-point and structured literal families against exact rational arithmetic',
   'Transliteration and digit classification are checked on every Unicode scalar value; every digit string up to a length bound over both scripts with a point at every position, the exact decimal expansions of a double / midpoint / midpoint +- epsilon in every binade (3 scripts), and the overflow-threshold family are lexed by the real scanner and compared with the nearest-even double computed by math/big.',
   'math/big rational to float64 rounding; random several-hundred-digit literals are replaced by the enumerated all-binades family'),
 'C14': (MC, 'probe-tree enumeration x iteration-order schedule exploration against the model',
   'Every operator/call/literal/index/store/assignment context (depth 1 and a depth-2 family) with side-effecting probes over 16 values of every kind is executed on the real interpreter under every iteration-order schedule of its instrumented map ranges (unbounded for <=3 choice points, else <=2 deviations) and compared with the model: tag order, each tag once, result value, truthiness in every conditional context.',
   'reference model; overlay rewrites every range over a map so that the explorer chooses the permutation'),
}
hooks = {
 "guard": "verif",
 "enable": "no source commits in /repo: the checks generate a `go build -overlay` map from /repo's working tree at check time (internal/instrument: map ranges, time.Now, os.Stdin, os.Args, os.Exit, os.ReadFile, fuel points, VerifReset) and build with -tags verif",
 "baseline_off_cmd": "cd /repo && GOFLAGS=-mod=readonly GOPROXY=off GOSUMDB=off GOTOOLCHAIN=local go test -vet=off -count=1 -json ./...",
 "source_commits": [], "add_only": True}
man = {"version": 1, "setup_cmd": "./check setup", "hooks": hooks,
 "engines": [{"name": "mc", "path": "/verif/cmd/mc", "serves_properties": sorted(C), "kind_free_text": "hand-written explicit-state / stateless explorer: overlay instrumenter (owned nondeterminism), sharded in-process workers running the real packages, independent reference model, CLI confirmation"}],
 "checks": [], "not_applicable": [],
 "notes": "All checks rebuild from /repo's working tree (content-hash keyed cache under /verif/.cache). Genuine defects found and repaired are listed as `fixed:` in known_findings.txt."}
for p in props:
    i = p['id']
    if i in C:
        lvl, tech, text, note = C[i]
        man['checks'].append({"property_id": i, "quick_cmd": "./check %s quick" % i, "thorough_cmd": "./check %s thorough" % i,
          "evidence_file": "/verif/evidence/%s.json" % i, "replay_cmd_template": "./check replay {path}", "engine": "mc",
          "level_claimed": {"category": lvl, "text": text, "design_ref": "DESIGN.md §4 " + i}, "level_note": note, "technique": tech})
    else:
        man['not_applicable'].append({"property_id": i, "reason": "check not built yet"})
json.dump(man, open(os.path.join(ROOT, 'MANIFEST.json'), 'w'), indent=1, ensure_ascii=False)
print('checks:', len(man['checks']), 'not claimed:', len(man['not_applicable']))

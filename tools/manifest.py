#!/usr/bin/env python3
"""Generate /verif/MANIFEST.json from the table below (single source of truth)."""
import json, os
ROOT = os.path.dirname(os.path.dirname(os.path.abspath(__file__)))
props = [json.loads(l) for l in open(os.path.join(ROOT, 'properties.jsonl'))]
MC, EX = 'model_checking', 'exploration'
C = {
 'C01': (MC, 'exhaustive search over grammar-accepted token sequences and bounded syntax trees against an independent ladder parser',
   '(a) Every token sequence the amended grammar (Earley over grammer.txt) accepts, up to length bounds over three token alphabets, is parsed by the real parser and its tree - walked through exported fields - must equal the tree of an independent precedence-climbing parser driven by the documented ladder. (b) Every expression tree of depth <=2 over every node form, a depth-3 family, all operator-level triples in all five shapes and every statement skeleton are written with minimal and full parentheses and must parse back to the same tree. (c) Ladder-conform parentheses never change what operator triples print.',
   'grammar extraction from grammer.txt with the amendments the property lists; ladder parser in internal/model; bounds on length/depth'),
 'C08': (MC, 'viable-prefix search: Earley recogniser over the documented grammar drives exhaustive token-sequence exploration of the real front end',
   'From every prefix that the amended grammar says is viable, every symbol of the token alphabet is appended (three alphabets, length bounds); every viable prefix and every dead one-token extension is rendered on one line and one token per line and run through the real lexer+parser: accepted iff derivable, rejected texts flag an error with line numbers inside the text and the first diagnostic on the line of the first dead token; rejected texts appended to a print statement run nothing and exit 65 (through main). Character-level texts, deep nesting to 10^3/10^4, the 255-parameter limit and the reserved-name set are enumerated as separate families.',
   'Earley recogniser and grammar amendments (internal/model/grammar.go); texts with a trailing comma in an object literal or a ধরি declaration spanning a line break are out of domain and skipped (counted)'),
 'C02': (EX, 'complete operator x operand-pair matrix against the reference evaluator',
   'Every unary/binary operator is applied to every ordered pair of a 49-value operand alphabet (all runtime kinds, IEEE boundary magnitudes, integer-typed results), equality laws are checked on every pair of bound values, and every depth-2 composition over a sub-alphabet is run; each program is executed on the real interpreter (through its own main package) and judged by an independent evaluator. Exhaustive over the stated finite alphabets; values outside them (random doubles) are not covered.',
   'reference evaluator (internal/model) using Go float64 arithmetic, math.Mod and math.Pow; overlay instrumentation; string+boolean and numeric-looking strings are unspecified and skipped'),
 'C03': (MC, 'exhaustive search over scope-event histories against a scope-stack model',
   'All well-nested histories of declare/assign/read/enter/exit/call/closure events over colliding names up to a length bound are enumerated (every prefix closed and executed as a program on the real interpreter) and compared - stdout, error kind, error line, status - with an independent scope-stack model; errors and out-of-domain programs are leaves.',
   'reference model; the domain restriction of the property is implemented by the model (closure free-variable rule); bound on history length'),
 'C04': (MC, 'exhaustive enumeration of return placements and closure call interleavings against the model',
   'Return at every nesting path over block/if/else/while/for, the arity matrix, every value kind as callee, recursion depths, and every interleaving (up to a length bound) of calls to the sibling closures of two counter instances under four holder forms are executed on the real interpreter and compared with the model.',
   'reference model; bounds on nesting depth and interleaving length'),
 'C05': (MC, 'exhaustive control-flow skeleton enumeration against the model',
   'Every statement skeleton over trace points, if/else, while, for (header clauses traced), blocks, break and continue up to a size and depth bound is executed on the real interpreter and compared on the full trace with the model; stray break/continue/return at top level included.',
   'reference model; programs the model cannot finish within its step budget are skipped (counted)'),
 'C09': (MC, 'exhaustive prefix-tree enumeration of texts against a longest-match model lexer',
   'Every concatenation of lexical fragments up to a length bound (two alphabets), and every Unicode scalar value alone and in two contexts, is pushed through the real scanner; token kinds, lexemes, literals, lines, the single EOF and the number/lines of diagnostics are compared with an independent longest-match lexer.',
   'model lexer built on Go unicode tables and math/big; bound on text length in fragments'),
 'C10': (EX, 'exhaustive per-code-point and structured literal families against exact rational arithmetic',
   'Transliteration and digit classification are checked on every Unicode scalar value; every digit string up to a length bound over both scripts with a point at every position, the exact decimal expansions of a double / midpoint / midpoint +- epsilon in every binade (3 scripts), and the overflow-threshold family are lexed by the real scanner and compared with the nearest-even double computed by math/big.',
   'math/big rational to float64 rounding; random several-hundred-digit literals are replaced by the enumerated all-binades family'),
 'C14': (MC, 'probe-tree enumeration x iteration-order schedule exploration against the model',
   'Every operator/call/literal/index/store/assignment context (depth 1 and a depth-2 family) with side-effecting probes over 16 values of every kind is executed on the real interpreter under every iteration-order schedule of its instrumented map ranges (unbounded for <=3 choice points, else <=2 deviations) and compared with the model: tag order, each tag once, result value, truthiness in every conditional context.',
   'reference model; overlay rewrites every range over a map so that the explorer chooses the permutation'),
}
hooks = {
 "guard": "verif",
 "enable": "no source commits in /repo: the checks generate a `go build -overlay` map from /repo's working tree at check time (internal/instrument: map ranges, time.Now, os.Stdin, os.Args, os.Exit, os.ReadFile, fuel points, VerifReset) and build with -tags verif",
 "baseline_off_cmd": "cd /repo && GOFLAGS=-mod=readonly GOPROXY=off GOSUMDB=off GOTOOLCHAIN=local go test -vet=off -count=1 -json ./...",
 "source_commits": [], "add_only": True}
man = {"version": 1, "setup_cmd": "./check setup", "hooks": hooks,
 "engines": [{"name": "mc", "path": "/verif/cmd/mc", "serves_properties": sorted(C), "kind_free_text": "hand-written explicit-state / stateless explorer: overlay instrumenter (owned nondeterminism), sharded in-process workers running the real packages, independent reference model, CLI confirmation"}],
 "checks": [], "not_applicable": [],
 "notes": "All checks rebuild from /repo's working tree (content-hash keyed cache under /verif/.cache). Genuine defects found and repaired are listed as `fixed:` in known_findings.txt."}
for p in props:
    i = p['id']
    if i in C:
        lvl, tech, text, note = C[i]
        man['checks'].append({"property_id": i, "quick_cmd": "./check %s quick" % i, "thorough_cmd": "./check %s thorough" % i,
          "evidence_file": "/verif/evidence/%s.json" % i, "replay_cmd_template": "./check replay {path}", "engine": "mc",
          "level_claimed": {"category": lvl, "text": text, "design_ref": "DESIGN.md §4 " + i}, "level_note": note, "technique": tech})
    else:
        man['not_applicable'].append({"property_id": i, "reason": "check not built yet (work in progress; DESIGN.md §4 describes the planned model-checking check)"})
json.dump(man, open(os.path.join(ROOT, 'MANIFEST.json'), 'w'), indent=1, ensure_ascii=False)
print('checks:', len(man['checks']), 'not claimed:', len(man['not_applicable']))

#!/usr/bin/env python3
"""Run the repository's suite (guard off) and compare with /root/.vp/BASELINE.json stable_pass."""
import json, subprocess, os, sys
env = dict(os.environ, GOFLAGS='-mod=readonly', GOPROXY='off', GOSUMDB='off', GOTOOLCHAIN='local')
repo = sys.argv[1] if len(sys.argv) > 1 else '/repo'
r = subprocess.run(['go', 'test', '-vet=off', '-count=1', '-json', './...'], cwd=repo, env=env, capture_output=True, text=True)
res = {}
for l in r.stdout.splitlines():
    try: d = json.loads(l)
    except Exception: continue
    if d.get('Test') and d.get('Action') in ('pass', 'fail'):
        res[d['Package'] + '::' + d['Test']] = d['Action']
base = json.load(open('/root/.vp/BASELINE.json'))['stable_pass']
bad = [t for t in base if res.get(t) != 'pass']
print('stable tests passing: %d / %d' % (len(base) - len(bad), len(base)))
for t in bad: print('  NOT PASSING:', t, res.get(t))
sys.exit(1 if bad else 0)

#!/usr/bin/env python3
"""tools/seedround.py <N>: prepare seeding round N under /tmp/seedN: one detached worktree of /repo per property,
/tmp/seedN/out/Cxx/{PROPERTY.txt,PROMPT.txt}.  The prompt names what earlier seeders did (from seeded/*/meta.json)."""
import json, glob, os, subprocess, sys
n = sys.argv[1]
root = '/tmp/seed' + n
here = os.path.dirname(os.path.abspath(__file__))
base = open(here + '/seedprompt.txt').read().replace('/tmp/seed/', root + '/')
base = base.replace("(verify both: `git stash` / `git stash pop` in your worktree)", "(verify both WITHOUT git stash - the stash is shared between worktrees and other seeders run concurrently: save your change with `git diff > patch.diff`, then `git apply -R patch.diff` for the unchanged tree and `git apply patch.diff` to restore it)")
os.makedirs(root + '/out', exist_ok=True)
for l in open(here + '/../properties.jsonl'):
    d = json.loads(l)
    cid = d['id']
    subprocess.run(['git', '-C', '/repo', 'worktree', 'add', '--detach', root + '/' + cid, 'HEAD', '-q'], check=True)
    os.makedirs(root + '/out/' + cid, exist_ok=True)
    open(root + '/out/%s/PROPERTY.txt' % cid, 'w').write("Property %s — %s\n\nStatement:\n%s\n\nQuantifier:\n%s\n" % (cid, d['title'], d['statement'], d['quantifier']['text']))
    prev = []
    for sd in sorted(glob.glob(here + '/../seeded/%s*' % cid)):
        m = json.load(open(sd + '/meta.json'))
        prev.append(m.get('summary', '').replace('\n', ' ')[:600])
    extra = "\n\nPrevious seeders already made the following changes for this property; yours must be DIFFERENT in kind from all of them (another mechanism, another part of the code or another clause of the property), not a variation:\n" + ''.join("  - " + p + "\n" for p in prev)
    extra += "Avoid the most obvious single-token mutations. Think about what a careful reviewer would still wave through: state that survives where it should not (caches, memoisation, reused buffers, package-level variables), fast paths that are almost equivalent, two sites that must stay in agreement and no longer do, boundary values (empty, one element, maximum, the last position), rarely used syntactic variants of a construct, aliases, unusual but legal layouts, and interactions between two language features that are each fine alone. The bash script demo.sh must start with #!/bin/bash. Do not write anything outside your worktree and your output directory (use your output directory for temporary files).\n"
    open(root + '/out/%s/PROMPT.txt' % cid, 'w').write(base.replace('CXX', cid) + extra)
print('prepared', root)
